//@APPEND src/raw/node.rs
//@GROUP K-bits
// The small bit-level and arithmetic functions of the node format, each against the contract the Verus units encode /
// decode state for it - restated here as Rust assertions over the FULL input domain (loop-free: complete). Verus proves these
// contracts on the text as written; its default solver does no bit-vector or non-linear reasoning unprompted, so an edit
// that is the same function written differently (`size << 4` as `size * 16`, `(v & 0xC0) >> 6` as `v >> 6`,
// `n + n * t` as `n * (1 + t)`) fails there for want of a hint. These harnesses are the second back end for exactly those
// obligations: CBMC decides them bit-precisely, so the same contract is discharged on the rewritten text - and a real slip
// comes back with a concrete input.
#[cfg(kani)]
mod verif_k_bits {
    use super::*;

    fn pw(n: u64) -> u8 {
        if n < 0x100 { 1 } else if n < 0x1_0000 { 2 } else if n < 0x100_0000 { 3 } else if n < 0x1_0000_0000 { 4 }
        else if n < 0x100_0000_0000 { 5 } else if n < 0x1_0000_0000_0000 { 6 } else if n < 0x100_0000_0000_0000 { 7 } else { 8 }
    }

    #[kani::proof]
    fn bits_pack_sizes() {
        let v: u8 = kani::any();
        let size: u8 = kani::any();
        assert!(PackSizes::new().0 == 0);
        assert!(PackSizes::decode(v).0 == v);
        assert!(PackSizes(v).encode() == v);
        assert!(PackSizes(v).transition_pack_size() == (v >> 4) as usize);
        assert!(PackSizes(v).output_pack_size() == (v & 0x0f) as usize);
        if size <= 8 {
            let mut p = PackSizes(v);
            p.set_transition_pack_size(size);
            assert!(p.0 == (v & 0b0000_1111) | (size << 4));
            let mut q = PackSizes(v);
            q.set_output_pack_size(size);
            assert!(q.0 == (v & 0b1111_0000) | size);
        }
        kani::cover!(size == 8);
    }

    #[kani::proof]
    fn bits_state_any() {
        let v: u8 = kani::any();
        let n: u8 = kani::any();
        let yes: bool = kani::any();
        assert!(StateAnyTrans::new().0 == 0);
        let mut s = StateAnyTrans(v);
        s.set_final_state(yes);
        assert!(s.0 == (if yes { v | 0b01_000000 } else { v }));
        assert!(StateAnyTrans(v).is_final_state() == (v & 0x40 == 0x40));
        let mut t = StateAnyTrans(v);
        t.set_state_ntrans(n);
        assert!(t.0 == (if n <= 0b00_111111 { (v & 0b11_000000) | n } else { v }));
        let r = StateAnyTrans(v).state_ntrans();
        assert!(r.is_none() == (v & 0x3f == 0));
        if let Some(x) = r { assert!(x == v & 0x3f); }
        assert!(StateAnyTrans(v).ntrans_len() == (if v & 0x3f == 0 { 1 } else { 0 }));
        kani::cover!(r.is_none());
        kani::cover!(r.is_some());
    }

    #[kani::proof]
    fn bits_state_any_sizes() {
        let v: u8 = kani::any();
        let version: u64 = kani::any();
        let sz: u8 = kani::any();
        let ntrans: usize = kani::any();
        let idx = StateAnyTrans(v).trans_index_size(version, ntrans);
        assert!(idx == (if version >= 2 && ntrans > 32 { 256 } else { 0 }));
        if ntrans <= 256 {
            let r = StateAnyTrans(v).total_trans_size(version, PackSizes(sz), ntrans);
            assert!(r == ntrans + ntrans * ((sz >> 4) as usize) + idx);
        }
        kani::cover!(ntrans == 256 && version >= 2);
    }

    #[kani::proof]
    fn bits_state_one() {
        let v: u8 = kani::any();
        let input: u8 = kani::any();
        assert!(StateOneTransNext::new().0 == 0b11_000000u8);
        assert!(StateOneTrans::new().0 == 0b10_000000u8);
        let ci = common_idx(input, 0b111111);
        assert!(ci <= 0b111111);
        let mut a = StateOneTransNext(v);
        a.set_common_input(input);
        assert!(a.0 == (v & 0b11_000000) | ci);
        let mut b = StateOneTrans(v);
        b.set_common_input(input);
        assert!(b.0 == (v & 0b10_000000) | ci);
        assert!(StateOneTransNext(v).common_input().is_none() == (v & 0x3f == 0));
        assert!(StateOneTrans(v).common_input().is_none() == (v & 0x3f == 0));
        if v & 0x3f != 0 {
            assert!(StateOneTransNext(v).common_input() == common_input(v & 0x3f));
            assert!(StateOneTrans(v).common_input() == common_input(v & 0x3f));
        }
        assert!(StateOneTransNext(v).input_len() == (if v & 0x3f == 0 { 1 } else { 0 }));
        assert!(StateOneTrans(v).input_len() == (if v & 0x3f == 0 { 1 } else { 0 }));
        kani::cover!(v & 0x3f == 0);
        kani::cover!(v & 0x3f != 0);
    }

    // State::new: the class of a state byte is its top two bits; address 0 is the shared empty final node
    #[kani::proof]
    fn bits_state_new() {
        let v: u8 = kani::any();
        let pad: u8 = kani::any();
        let data = [pad, v];
        match State::new(&data, 1) {
            State::OneTransNext(s) => assert!((v & 0b11_000000) >> 6 == 3 && s.0 == v),
            State::OneTrans(s) => assert!((v & 0b11_000000) >> 6 == 2 && s.0 == v),
            State::AnyTrans(s) => assert!((v & 0b11_000000) >> 6 <= 1 && s.0 == v),
            State::EmptyFinal => assert!(false),
        }
        match State::new(&data, 0) {
            State::EmptyFinal => {}
            _ => assert!(false),
        }
        kani::cover!((v & 0b11_000000) >> 6 == 3);
        kani::cover!((v & 0b11_000000) >> 6 == 0);
    }

    // Output: a u64 with min as the common prefix, + as concatenation, - as its inverse
    #[kani::proof]
    fn bits_output() {
        let a: u64 = kani::any();
        let b: u64 = kani::any();
        assert!(Output::new(a).value() == a);
        assert!(Output::zero().value() == 0);
        assert!(Output::new(a).is_zero() == (a == 0));
        assert!(Output::new(a).prefix(Output::new(b)).value() == (if a <= b { a } else { b }));
        if let Some(s) = a.checked_add(b) {
            assert!(Output::new(a).cat(Output::new(b)).value() == s);
        }
        if a >= b {
            assert!(Output::new(a).sub(Output::new(b)).value() == a - b);
        }
        kani::cover!(a >= b && b > 0);
    }

    // pack_size is the least byte width; pack_delta_size that of the delta (0 for the empty final node)
    #[kani::proof]
    fn bits_pack_size() {
        let n: u64 = kani::any();
        assert!(bytes::pack_size(n) == pw(n));
        let node_addr: usize = kani::any();
        let trans_addr: usize = kani::any();
        if trans_addr == 0 || trans_addr < node_addr {
            let d = if trans_addr == 0 { 0u64 } else { (node_addr - trans_addr) as u64 };
            assert!(pack_delta_size(node_addr, trans_addr) == pw(d));
        }
        kani::cover!(n >= 1 << 56);
        kani::cover!(n == 1 << 40);
    }
}
