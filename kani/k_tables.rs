//@APPEND src/raw/crc32.rs
//@GROUP K-tables
// Facts about the generated CRC tables (build.rs) that unit crc assumes, on the real tables.
#[cfg(kani)]
mod verif_k_tables {
    use super::*;

    /// eight reflected shift steps of CRC-32C (Castagnoli 0x82F63B78): the spec's bit_step
    fn bit_step(c: u32, b: u8) -> u32 {
        let mut x = c ^ (b as u32);
        let mut i = 0;
        while i < 8 {
            x = if x & 1 == 1 { (x >> 1) ^ 0x82f63b78 } else { x >> 1 };
            i += 1;
        }
        x
    }

    // TABLE[(c ^ b) & 255] ^ (c >> 8) is eight bitwise steps, for every state c and byte b (complete)
    #[kani::proof]
    #[kani::unwind(9)]
    fn crc_byte_step_is_bitwise() {
        let c: u32 = kani::any();
        let b: u8 = kani::any();
        assert!(TABLE[((c as u8) ^ b) as usize] ^ (c >> 8) == bit_step(c, b));
        kani::cover!(true);
    }

    // TABLE[0] == 0, TABLE16[0] == TABLE (concrete loop over the real tables: complete)
    #[kani::proof]
    #[kani::unwind(257)]
    fn table16_row0() {
        assert!(TABLE[0] == 0);
        let mut i = 0usize;
        while i < 256 {
            assert!(TABLE16[0][i] == TABLE[i]);
            i += 1;
        }
        kani::cover!(true);
    }

    // TABLE16[j+1][i] is one zero-byte step of TABLE16[j][i], one harness per row j (concrete loops: complete)
    macro_rules! row_succ {
        ($name:ident, $j:expr) => {
            #[kani::proof]
            #[kani::unwind(257)]
            fn $name() {
                let mut i = 0usize;
                while i < 256 {
                    let c = TABLE16[$j][i];
                    assert!(TABLE16[$j + 1][i] == (c >> 8) ^ TABLE[(c & 0xff) as usize]);
                    i += 1;
                }
                kani::cover!(true);
            }
        };
    }
    row_succ!(table16_succ_00, 0);
    row_succ!(table16_succ_01, 1);
    row_succ!(table16_succ_02, 2);
    row_succ!(table16_succ_03, 3);
    row_succ!(table16_succ_04, 4);
    row_succ!(table16_succ_05, 5);
    row_succ!(table16_succ_06, 6);
    row_succ!(table16_succ_07, 7);
    row_succ!(table16_succ_08, 8);
    row_succ!(table16_succ_09, 9);
    row_succ!(table16_succ_10, 10);
    row_succ!(table16_succ_11, 11);
    row_succ!(table16_succ_12, 12);
    row_succ!(table16_succ_13, 13);
    row_succ!(table16_succ_14, 14);

    // TABLE is XOR-linear in its index (two symbolic bytes; thorough tier)
    #[kani::proof]
    fn table_xor_linear() {
        let a: u8 = kani::any();
        let b: u8 = kani::any();
        assert!(TABLE[(a ^ b) as usize] == TABLE[a as usize] ^ TABLE[b as usize]);
        kani::cover!(true);
    }

    // masked() is rotate-right-15 plus 0xA282EAD8 (cross-check of CheckSummer::masked on the real code)
    #[kani::proof]
    fn masked_spec() {
        let s: u32 = kani::any();
        let cs = CheckSummer { sum: s };
        assert!(cs.masked() == s.rotate_right(15).wrapping_add(0xA282EAD8));
        kani::cover!(true);
    }
}
