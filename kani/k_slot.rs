//@APPEND src/raw/ops.rs
//@GROUP K-slot
// The order of heap slots as unit heap assumes it (axiom_slot_order): reverse lexicographic on (input, output), so that
// BinaryHeap (a max-heap) hands out the smallest key first, ties by the smaller output.
#[cfg(kani)]
mod verif_k_slot {
    use super::*;
    use std::cmp::Ordering;

    fn lex(a: &[u8], b: &[u8]) -> Ordering {
        let mut i = 0;
        while i < a.len() && i < b.len() {
            if a[i] != b[i] {
                return if a[i] < b[i] { Ordering::Less } else { Ordering::Greater };
            }
            i += 1;
        }
        if a.len() == b.len() { Ordering::Equal } else if a.len() < b.len() { Ordering::Less } else { Ordering::Greater }
    }

    fn slot(idx: usize, bytes: [u8; 3], len: usize, out: u64) -> Slot {
        let mut s = Slot::new(idx);
        s.set_input(&bytes[..len]);
        s.set_output(Output::new(out));
        s
    }

    // all keys of up to 3 symbolic bytes, all outputs: cmp / partial_cmp are the reverse of (key, then output); bounded by key length
    #[kani::proof]
    #[kani::unwind(6)]
    fn slot_order() {
        let la: usize = kani::any(); let lb: usize = kani::any();
        kani::assume(la <= 3 && lb <= 3);
        let a = slot(kani::any(), kani::any(), la, kani::any());
        let b = slot(kani::any(), kani::any(), lb, kani::any());
        let want = match lex(a.input(), b.input()) {
            Ordering::Equal => a.output.value().cmp(&b.output.value()),
            o => o,
        }.reverse();
        assert!(a.cmp(&b) == want);
        assert!(a.partial_cmp(&b) == Some(want));
        kani::cover!(want == Ordering::Less);
        kani::cover!(want == Ordering::Greater);
        kani::cover!(want == Ordering::Equal && la == 3);
    }
}
