//@APPEND src/bytes.rs
//@GROUP K-bytes
// Contracts of src/bytes.rs that the Verus units assume, stated on the real functions.
#[cfg(kani)]
mod verif_k_bytes {
    use super::*;

    /// executable twin of the Verus spec `le_u64` / `le_u32`
    fn le_u64_spec(s: &[u8]) -> u64 {
        (s[0] as u64) | (s[1] as u64) << 8 | (s[2] as u64) << 16 | (s[3] as u64) << 24
            | (s[4] as u64) << 32 | (s[5] as u64) << 40 | (s[6] as u64) << 48 | (s[7] as u64) << 56
    }
    fn le_u32_spec(s: &[u8]) -> u32 {
        (s[0] as u32) | (s[1] as u32) << 8 | (s[2] as u32) << 16 | (s[3] as u32) << 24
    }
    /// executable twin of `le_value(s[..k])` = sum s[i] * 256^i
    fn le_value_spec(s: &[u8], k: usize) -> u64 {
        let mut v: u64 = 0;
        let mut i = k;
        while i > 0 {
            i -= 1;
            v = (v << 8) | s[i] as u64;
        }
        v
    }

    // read_u64_le(s) == le_u64(s[..8]), read_u32_le(s) == le_u32(s[..4]) for every slice long enough (loop-free: complete)
    #[kani::proof]
    fn read_le() {
        let a: [u8; 12] = kani::any();
        let n: usize = kani::any();
        kani::assume(n >= 8 && n <= 12);
        let s = &a[..n];
        assert!(read_u64_le(s) == le_u64_spec(s));
        let m: usize = kani::any();
        kani::assume(m >= 4 && m <= 12);
        let t = &a[..m];
        assert!(read_u32_le(t) == le_u32_spec(t));
        kani::cover!(true);
    }

    // unpack_uint(s, k) == le_value(s[..k]) for 1 <= k <= 8 and every slice of at least k bytes (loop bounded by the operand width: complete)
    #[kani::proof]
    #[kani::unwind(10)]
    fn unpack_le() {
        let a: [u8; 10] = kani::any();
        let n: usize = kani::any();
        let k: u8 = kani::any();
        kani::assume(k >= 1 && k <= 8 && n >= k as usize && n <= 10);
        let s = &a[..n];
        assert!(unpack_uint(s, k) == le_value_spec(s, k as usize));
        kani::cover!(k == 8);
    }

    // u32/u64::to_le_bytes yield le_bytes(n, 4/8): byte i is (n >> 8i) as u8 (the hoisted expressions of write_u32_le / write_u64_le)
    #[kani::proof]
    fn to_le_bytes_spec() {
        let n: u32 = kani::any();
        let b = n.to_le_bytes();
        assert!(b[0] == n as u8 && b[1] == (n >> 8) as u8 && b[2] == (n >> 16) as u8 && b[3] == (n >> 24) as u8);
        let m: u64 = kani::any();
        let c = m.to_le_bytes();
        assert!(c[0] == m as u8 && c[1] == (m >> 8) as u8 && c[2] == (m >> 16) as u8 && c[3] == (m >> 24) as u8
            && c[4] == (m >> 32) as u8 && c[5] == (m >> 40) as u8 && c[6] == (m >> 48) as u8 && c[7] == (m >> 56) as u8);
        kani::cover!(true);
    }

    // cross-check of rule R10 on the unmodified generic code: pack_uint_in then unpack_uint is the identity on the low k bytes,
    // pack_size is the least width
    #[kani::proof]
    #[kani::unwind(10)]
    fn pack_roundtrip() {
        let n: u64 = kani::any();
        let k: u8 = kani::any();
        kani::assume(k >= 1 && k <= 8);
        let mut buf = [0u8; 8];
        {
            let mut w: &mut [u8] = &mut buf;
            pack_uint_in(&mut w, n, k).unwrap();
        }
        let got = unpack_uint(&buf, k);
        let mask = if k == 8 { u64::MAX } else { (1u64 << (8 * k as u32)) - 1 };
        assert!(got == n & mask);
        let p = pack_size(n);
        assert!(p >= 1 && p <= 8);
        assert!(p == 8 || n < (1u64 << (8 * p as u32)));
        assert!(p == 1 || n >= (1u64 << (8 * (p as u32 - 1))));
        kani::cover!(k == 3);
    }
}
