//@APPEND src/raw/node.rs
//@GROUP K-tables
// The common-input tables (COMMON_INPUTS / COMMON_INPUTS_INV) as units encode, decode and layout assume them.
#[cfg(kani)]
mod verif_k_common {
    use super::*;

    // for every byte: the index is at most 63 and a non-zero index maps back to the byte; index 0 means "not common";
    // every index 1..=63 decodes without panic (concrete loops over the real tables: complete)
    #[kani::proof]
    #[kani::unwind(257)]
    fn common_tables() {
        let mut b = 0usize;
        while b < 256 {
            let ci = common_idx(b as u8, 0b111111);
            assert!(ci <= 63);
            if ci != 0 {
                assert!(common_input(ci) == Some(b as u8));
            }
            b += 1;
        }
        assert!(common_input(0).is_none());
        let mut ci = 1u8;
        while ci <= 63 {
            assert!(common_input(ci).is_some());
            ci += 1;
        }
        kani::cover!(true);
    }
}
