//@APPEND src/raw/node.rs
//@GROUP K-tables
// The common-input tables (COMMON_INPUTS / COMMON_INPUTS_INV) as units encode, decode and layout assume them.
#[cfg(kani)]
mod verif_k_common {
    use super::*;

    // for every byte: the index is at most 63 and a non-zero index maps back to the byte; index 0 means "not common";
    // every index 1..=63 decodes without panic (concrete loops over the real tables: complete)
    #[kani::proof]
    #[kani::unwind(257)]
    fn common_tables() {
        let mut b = 0usize;
        while b < 256 {
            let ci = common_idx(b as u8, 0b111111);
            assert!(ci <= 63);
            if ci != 0 {
                assert!(common_input(ci) == Some(b as u8));
            }
            b += 1;
        }
        assert!(common_input(0).is_none());
        let mut ci = 1u8;
        while ci <= 63 {
            assert!(common_input(ci).is_some());
            ci += 1;
        }
        kani::cover!(true);
    }

    // C09 / C10: the table is part of the file format (a common byte is stored as its rank in the state byte). This is
    // the table of format versions 1-3, pinned here as a literal: a tree whose table differs writes files other
    // readers of the format decode differently, even though its own reader still agrees with its writer.
    const FORMAT_COMMON_INPUTS: [u8; 256] = [84, 85, 86, 87, 88, 89, 90, 91, 92, 93, 94, 95, 96, 97, 98, 99, 100, 101, 102, 103, 104, 105, 106, 107, 108, 109, 110, 111, 112, 113, 114, 115, 116, 80, 117, 118, 79, 39, 30, 81, 75, 74, 82, 57, 66, 16, 12, 2, 19, 20, 21, 27, 32, 29, 35, 36, 37, 34, 24, 73, 119, 23, 120, 40, 83, 44, 48, 42, 43, 49, 46, 62, 61, 47, 69, 68, 58, 56, 55, 59, 51, 72, 54, 45, 52, 64, 65, 63, 71, 67, 70, 77, 121, 78, 122, 31, 123, 4, 25, 9, 17, 1, 26, 22, 13, 7, 50, 38, 14, 15, 10, 3, 8, 60, 6, 5, 0, 18, 33, 11, 41, 28, 53, 124, 125, 126, 76, 127, 128, 129, 130, 131, 132, 133, 134, 135, 136, 137, 138, 139, 140, 141, 142, 143, 144, 145, 146, 147, 148, 149, 150, 151, 152, 153, 154, 155, 156, 157, 158, 159, 160, 161, 162, 163, 164, 165, 166, 167, 168, 169, 170, 171, 172, 173, 174, 175, 176, 177, 178, 179, 180, 181, 182, 183, 184, 185, 186, 187, 188, 189, 190, 191, 192, 193, 194, 195, 196, 197, 198, 199, 200, 201, 202, 203, 204, 205, 206, 207, 208, 209, 210, 211, 212, 213, 214, 215, 216, 217, 218, 219, 220, 221, 222, 223, 224, 225, 226, 227, 228, 229, 230, 231, 232, 233, 234, 235, 236, 237, 238, 239, 240, 241, 242, 243, 244, 245, 246, 247, 248, 249, 250, 251, 252, 253, 254, 255];
    #[kani::proof]
    #[kani::unwind(257)]
    fn common_tables_pinned() {
        let mut b = 0usize;
        while b < 256 {
            assert!(COMMON_INPUTS[b] == FORMAT_COMMON_INPUTS[b]);
            // ... and so is the way a rank becomes the six-bit field: rank r < 63 is stored as r + 1, the value 0 means
            // "not common, the byte follows explicitly" (a writer and a reader that shift both by one still agree with
            // each other, and with nobody else)
            let rank = FORMAT_COMMON_INPUTS[b];
            let field = if rank < 63 { rank + 1 } else { 0 };
            assert!(common_idx(b as u8, 0b111111) == field);
            if field != 0 {
                assert!(common_input(field) == Some(b as u8));
            }
            b += 1;
        }
        kani::cover!(true);
    }
}
