// ---------------- the graph a reader walks ----------------
/// the file a reader looks at (bytes and format version) together with the set of addresses that hold its nodes
pub struct GR { pub data: Seq<u8>, pub version: u64, pub dom: vstd::set::Set<nat> }
pub open spec fn empty_final_nv() -> NV { NV { is_final: true, fo: 0, trans: Seq::empty() } }
/// totalised: the decoded node at the addresses of the graph (and at 0, the shared empty-final node), the empty-final
/// node elsewhere - so that statements quantified over all addresses are satisfiable on real files
pub open spec fn node_at(g: GR, a: nat) -> NV {
    if a == 0 { empty_final_nv() } else if g.dom.contains(a) { dec_view(g.data, a as int, g.version) } else { empty_final_nv() }
}
/// every address of the graph can be decoded inside the file, targets stay inside the graph (or are 0), and inputs
/// of a node are distinct and ordered (what the index lookup of find_input needs is `searchable`, a consequence
/// stated per node)
pub open spec fn g_closed(g: GR) -> bool {
    &&& !g.dom.contains(0)
    &&& plausible(g.data, 0, g.version)
    &&& dec_view(g.data, 0, g.version) == empty_final_nv()
    &&& forall|a: nat| g.dom.contains(a) ==> #[trigger] plausible(g.data, a as int, g.version)
    &&& searchable_at(g.data, 0, g.version)
    &&& forall|a: nat| g.dom.contains(a) ==> #[trigger] searchable_at(g.data, a as int, g.version)
    &&& forall|a: nat, i: int| 0 <= i < node_at(g, a).trans.len() ==> ((#[trigger] node_at(g, a).trans[i]).2 == 0 || g.dom.contains(node_at(g, a).trans[i].2))
}
/// the addresses that hold the nodes of a file's transducer - a function of the bytes (for a built file: the domain
/// of graph(body), unit layout)

//@INCLUDE inc/fdom_defs.rs
pub open spec fn in_graph(g: GR, a: nat) -> bool { a == 0 || g.dom.contains(a) }
/// before calling FstRef::node(addr) for an address of the graph: the call is allowed and returns the graph's node
pub proof fn lemma_node_call(g: GR, a: nat)
    requires g_closed(g), in_graph(g, a),
    ensures plausible(g.data, a as int, g.version), searchable_at(g.data, a as int, g.version),
        node_at(g, a) == dec_view(g.data, a as int, g.version),
{
}
