// The error types of src/error.rs and src/raw/error.rs. The unit is one flat file, so raw::Error is named
// RawError here (rule R17: module-flattening rename, applied to the source by declared substitutions).
//@ASSUME std::string::FromUtf8Error is an opaque external type
#[verifier::external_type_specification]
#[verifier::external_body]
pub struct ExFromUtf8Error(FromUtf8Error);

pub type FstType = u64;
pub type CompiledAddr = usize;

#[allow(inconsistent_fields)]
//@SRC src/raw/error.rs :: enum Error
//@SUB R17 `enum Error` => `enum RawError`
pub enum RawError {
    Version { expected: u64, got: u64 },
    Format { size: usize },
    ChecksumMismatch { expected: u32, got: u32 },
    ChecksumMissing,
    DuplicateKey { got: Vec<u8> },
    OutOfOrder { previous: Vec<u8>, got: Vec<u8> },
    WrongType { expected: FstType, got: FstType },
    FromUtf8(FromUtf8Error),
    __Nonexhaustive,
}

//@SRC src/error.rs :: enum Error
//@SUB R17 `raw::Error` => `RawError`
pub enum Error {
    Fst(RawError),
    Io(io::Error),
}

impl vstd::std_specs::convert::FromSpecImpl<io::Error> for Error {
    open spec fn obeys_from_spec() -> bool { true }
    open spec fn from_spec(err: io::Error) -> Error { Error::Io(err) }
}
impl vstd::std_specs::convert::FromSpecImpl<RawError> for Error {
    open spec fn obeys_from_spec() -> bool { true }
    open spec fn from_spec(err: RawError) -> Error { Error::Fst(err) }
}
impl From<io::Error> for Error {
    //@SRC src/error.rs :: impl From for Error :: fn from #0
    fn from(err: io::Error) -> (r: Error)
        ensures r == Error::Io(err),
    {
        Error::Io(err)
    }
}

impl From<RawError> for Error {
    //@SRC src/error.rs :: impl From for Error :: fn from #1
    //@SUB R17 `raw::Error` => `RawError`
    fn from(err: RawError) -> (r: Error)
        ensures r == Error::Fst(err),
    {
        Error::Fst(err)
    }
}

//@ASSUME Debug for Error (derived in /repo; only `unwrap`'s panic message uses it): left outside verification
#[verifier::external]
impl std::fmt::Debug for Error { fn fmt(&self, _f: &mut std::fmt::Formatter<'_>) -> std::fmt::Result { unimplemented!() } }

pub type Result<T> = std::result::Result<T, Error>;
