// the node vocabulary shared by writer, readers and the node cache
pub struct BT { pub inp: u8, pub out: int, pub addr: nat }
pub struct BNode { pub is_final: bool, pub fo: int, pub trans: Seq<BT> }
