//@SRC src/raw/mod.rs :: struct Output
#[derive(Clone, Copy)]
pub struct Output(pub u64);
impl Output {
    //@SRC src/raw/mod.rs :: impl Output :: fn new
    pub fn new(v: u64) -> (r: Output)
        ensures r.0 == v,
    {
        Output(v)
    }
    //@SRC src/raw/mod.rs :: impl Output :: fn zero
    pub fn zero() -> (r: Output)
        ensures r.0 == 0,
    {
        Output(0)
    }
    //@SRC src/raw/mod.rs :: impl Output :: fn value
    pub fn value(self) -> (r: u64)
        ensures r == self.0,
    {
        self.0
    }
    //@SRC src/raw/mod.rs :: impl Output :: fn is_zero
    pub fn is_zero(self) -> (r: bool)
        ensures r == (self.0 == 0),
    {
        self.0 == 0
    }
}
