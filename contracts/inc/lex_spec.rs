// lexicographic order on byte strings, as the properties mean it
pub open spec fn lex_lt(a: Seq<u8>, b: Seq<u8>) -> bool
    decreases a.len(),
{
    if b.len() == 0 { false }
    else if a.len() == 0 { true }
    else if a[0] != b[0] { a[0] < b[0] }
    else { lex_lt(a.drop_first(), b.drop_first()) }
}
pub open spec fn lex_cmp(a: Seq<u8>, b: Seq<u8>) -> core::cmp::Ordering {
    if lex_lt(a, b) { core::cmp::Ordering::Less } else if a == b { core::cmp::Ordering::Equal } else { core::cmp::Ordering::Greater }
}
//@ASSUME std: byte slices are ordered lexicographically (PartialOrd for [u8])
#[verifier::external_body]
pub proof fn axiom_slice_u8_order()
    ensures
        <[u8] as vstd::std_specs::cmp::PartialOrdSpec<[u8]>>::obeys_partial_cmp_spec(),
        forall|a: &[u8], b: &[u8]| #[trigger] a.partial_cmp_spec(b) == Some(lex_cmp(a@, b@)),
{}
pub proof fn lemma_lex_total(a: Seq<u8>, b: Seq<u8>)
    ensures lex_lt(a, b) || a == b || lex_lt(b, a), !(lex_lt(a, b) && lex_lt(b, a)), !lex_lt(a, a),
    decreases a.len(),
{
    if a.len() > 0 && b.len() > 0 {
        if a[0] == b[0] {
            lemma_lex_total(a.drop_first(), b.drop_first());
            if a.drop_first() == b.drop_first() { assert(a =~= seq![a[0]] + a.drop_first()); assert(b =~= seq![b[0]] + b.drop_first()); }
        }
    } else if a.len() == 0 && b.len() == 0 { assert(a =~= b); }
    if a.len() > 0 { lemma_lex_total(a.drop_first(), a.drop_first()); }
}
