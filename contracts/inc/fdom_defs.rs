/// the length of the footer: key count and root address, and from version 3 on the checksum
pub open spec fn footer_len(version: u64) -> nat { if version >= 3 { 20 } else { 16 } }
/// the addresses that hold the nodes of a file's transducer - a function of the bytes: the body (the file without its footer) parsed
/// backwards node by node (`graph`, inc/graph_defs.rs - the same function the builder's invariant and unit layout speak about)
/// (opaque: the reader units only need that it is one fixed function of the bytes; unit compose reveals it)
#[verifier::opaque]
pub open spec fn fdom(s: Seq<u8>, version: u64) -> vstd::set::Set<nat> {
    if s.len() >= footer_len(version) { graph(s.subrange(0, s.len() - footer_len(version)), version).dom() } else { vstd::set::Set::empty() }
}
