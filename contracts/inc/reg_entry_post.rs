            // ---- Registry::entry in the vocabulary of unit builder: res(n, a) - the cache hands out address a for node n ----
            r matches RegistryEntry::Found(a) ==> old(self).res(node@, a as nat),
            r matches RegistryEntry::Found(a) ==> (forall|n: BNode, x: nat| final(self).res(n, x) == old(self).res(n, x)),
            r is Found ==> (old(self).reg_ok() ==> final(self).reg_ok()),
            // only a cache without cells refuses a node
            r is Rejected ==> (forall|n: BNode, x: nat| !final(self).res(n, x) && !old(self).res(n, x)),
            r is Rejected ==> (old(self).reg_ok() ==> final(self).reg_ok()) && old(self).full_for(node@),
            // a miss hands out the cell that will hold the node with the address the caller writes; nothing else becomes resident
            r matches RegistryEntry::NotFound(cell) ==> (forall|n: BNode, x: nat| final(self).res(n, x) ==> old(self).res(n, x) || (n == final(cell).node_s() && x == final(cell).addr_s())),
            r matches RegistryEntry::NotFound(cell) ==> cell.node_s() == node@,
            // C12: a miss means the node is recorded nowhere - a resident node is always found
            r is NotFound ==> (old(self).reg_ok() ==> forall|x: nat| !old(self).res(node@, x)),
            r matches RegistryEntry::NotFound(cell) ==> (old(self).reg_ok() && final(cell).node_s() == node@ && final(cell).addr_s() != 0 ==> final(self).reg_ok()),
            // C12: unless the least recently used cell of the node's row was occupied, nothing stops being resident
            r is NotFound ==> (!old(self).full_for(node@) ==> forall|n: BNode, x: nat| old(self).res(n, x) ==> final(self).res(n, x)),
            // and the handed-out cell is resident once it carries an address
            r matches RegistryEntry::NotFound(cell) ==> (final(cell).addr_s() != NONE_ADDRESS ==> final(self).res(final(cell).node_s(), final(cell).addr_s())),
