// `node@`: the ghost view of a builder node (shared by units builder and registry)
impl BuilderNode {
    pub open spec fn view(&self) -> BNode {
        BNode { is_final: self.is_final, fo: self.final_output.0 as int, trans: Seq::new(self.trans@.len(), |i: int| tview(self.trans@[i])) }
    }
}
