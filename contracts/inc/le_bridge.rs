// the writer's little-endian strings (arithmetic) read back by the reader's little-endian words (bitwise)
pub proof fn lemma_le_u64_bytes(n: u64)
    ensures le_bytes(n as nat, 8).len() == 8, le_u64(le_bytes(n as nat, 8)) == n
{
    reveal_with_fuel(le_bytes, 9);
    let s = le_bytes(n as nat, 8);
    let m = n as nat;
    assert(s[0] == (m % 256) as u8);
    assert(s[1] == ((m / 256) % 256) as u8);
    assert(s[2] == ((m / 256 / 256) % 256) as u8);
    assert(s[3] == ((m / 256 / 256 / 256) % 256) as u8);
    assert(s[4] == ((m / 256 / 256 / 256 / 256) % 256) as u8);
    assert(s[5] == ((m / 256 / 256 / 256 / 256 / 256) % 256) as u8);
    assert(s[6] == ((m / 256 / 256 / 256 / 256 / 256 / 256) % 256) as u8);
    assert(s[7] == ((m / 256 / 256 / 256 / 256 / 256 / 256 / 256) % 256) as u8);
    let b0 = (n % 256) as u8; let b1 = ((n / 256) % 256) as u8; let b2 = ((n / 256 / 256) % 256) as u8; let b3 = ((n / 256 / 256 / 256) % 256) as u8;
    let b4 = ((n / 256 / 256 / 256 / 256) % 256) as u8; let b5 = ((n / 256 / 256 / 256 / 256 / 256) % 256) as u8;
    let b6 = ((n / 256 / 256 / 256 / 256 / 256 / 256) % 256) as u8; let b7 = ((n / 256 / 256 / 256 / 256 / 256 / 256 / 256) % 256) as u8;
    assert(s[0] == b0 && s[1] == b1 && s[2] == b2 && s[3] == b3 && s[4] == b4 && s[5] == b5 && s[6] == b6 && s[7] == b7);
    assert(((n % 256) as u8 as u64) | (((n / 256) % 256) as u8 as u64) << 8 | (((n / 256 / 256) % 256) as u8 as u64) << 16 | (((n / 256 / 256 / 256) % 256) as u8 as u64) << 24
        | (((n / 256 / 256 / 256 / 256) % 256) as u8 as u64) << 32 | (((n / 256 / 256 / 256 / 256 / 256) % 256) as u8 as u64) << 40
        | (((n / 256 / 256 / 256 / 256 / 256 / 256) % 256) as u8 as u64) << 48 | (((n / 256 / 256 / 256 / 256 / 256 / 256 / 256) % 256) as u8 as u64) << 56 == n) by (bit_vector);
}
pub proof fn lemma_le_u32_bytes(n: u32)
    ensures le_bytes(n as nat, 4).len() == 4, le_u32(le_bytes(n as nat, 4)) == n
{
    reveal_with_fuel(le_bytes, 5);
    let s = le_bytes(n as nat, 4);
    let m = n as nat;
    assert(s[0] == (m % 256) as u8);
    assert(s[1] == ((m / 256) % 256) as u8);
    assert(s[2] == ((m / 256 / 256) % 256) as u8);
    assert(s[3] == ((m / 256 / 256 / 256) % 256) as u8);
    let b0 = (n % 256) as u8; let b1 = ((n / 256) % 256) as u8; let b2 = ((n / 256 / 256) % 256) as u8; let b3 = ((n / 256 / 256 / 256) % 256) as u8;
    assert(s[0] == b0 && s[1] == b1 && s[2] == b2 && s[3] == b3);
    assert(((n % 256) as u8 as u32) | (((n / 256) % 256) as u8 as u32) << 8 | (((n / 256 / 256) % 256) as u8 as u32) << 16 | (((n / 256 / 256 / 256) % 256) as u8 as u32) << 24 == n) by (bit_vector);
}
