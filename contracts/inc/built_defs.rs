// what a finished build leaves behind (shared with unit compose)
pub open spec fn sorted_node(n: BNode) -> bool { forall|i: int, j: int| 0 <= i < j < n.trans.len() ==> (#[trigger] n.trans[i]).inp < (#[trigger] n.trans[j]).inp }
pub open spec fn graph_sorted(g: G) -> bool { forall|a: nat| g.dom().contains(a) ==> sorted_node(#[trigger] g[a]) }
pub open spec fn bgraph(own: Seq<u8>) -> G { graph(own, VERSION) }
/// a finished file: what was in the sink before (`base`), then header + nodes (`body`), the key count, the root address
/// and the masked CRC-32C of all of that; the graph of the body lists exactly `entries`
pub open spec fn built(sink: Seq<u8>, base: Seq<u8>, len: nat, entries: Seq<Entry>, body: Seq<u8>, root: nat) -> bool {
    let pre = body + le_bytes(len, 8) + le_bytes(root, 8);
    &&& sink == base + pre + le_bytes(masked_crc(pre) as nat, 4)
    &&& gwf(bgraph(body)) && graph_sorted(bgraph(body)) && (root == 0 || bgraph(body).dom().contains(root)) && root < body.len()
    &&& lst(bgraph(body), root, Seq::<u8>::empty(), 0) == entries
    // C10: the body opens with the version word; the shared address 0 is the root only of a file that holds no node
    &&& body.len() >= 16 && body.subrange(0, 8) == le_bytes(VERSION as nat, 8) && (root == 0 ==> body.len() == 16)
    // C09: the stored count is the number of entries
    &&& len == entries.len()
    // every node can be decoded in place (the readers' precondition; unit layout)
    &&& all_decodable(body, VERSION)
    // C12 / machine arithmetic of the readers: every node but a keyless root is live; outputs are non-negative; the shared empty
    // final node is never written; a file whose values are all 0 carries no outputs; the values are u64s
    &&& gok_but(bgraph(body), root, false) && (zvals(entries) ==> gok_but(bgraph(body), root, true)) && vals_fit(entries)
    // C12, trie bound: no more nodes than the prefix trie of the keys has (its root and one node per distinct non-empty prefix)
    &&& bgraph(body).dom().len() <= 1 + tsz(entries)
}
