// little-endian byte strings of a given width, as the format description states them
pub open spec fn le_bytes(n: nat, k: nat) -> Seq<u8> decreases k,
{
    if k == 0 { Seq::empty() } else { seq![(n % 256) as u8] + le_bytes(n / 256, (k - 1) as nat) }
}
/// least k >= 1 with n < 2^(8k)
pub open spec fn pw(n: u64) -> nat {
    if n < 0x100 { 1 } else if n < 0x1_0000 { 2 } else if n < 0x100_0000 { 3 } else if n < 0x1_0000_0000 { 4 }
    else if n < 0x100_0000_0000 { 5 } else if n < 0x1_0000_0000_0000 { 6 } else if n < 0x100_0000_0000_0000 { 7 } else { 8 }
}
pub open spec fn pow256(k: nat) -> nat decreases k, { if k == 0 { 1 } else { 256 * pow256((k - 1) as nat) } }
