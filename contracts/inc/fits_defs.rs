/// all accumulated outputs along every path fit in u64 (mutually recursive, no quantifier)
pub open spec fn fits(g: GR, a: nat, acc: int) -> bool
    decreases a, 1int, 0int
    when wf_graph(g)
{
    acc + node_at(g, a).fo <= u64::MAX && fits_from(g, a, 0, acc)
}
pub open spec fn fits_from(g: GR, a: nat, i: int, acc: int) -> bool
    decreases a, 0int, node_at(g, a).trans.len() - i
    when wf_graph(g) && i >= 0
{
    let n = node_at(g, a);
    if i >= n.trans.len() { true } else { fits(g, n.trans[i].2, acc + n.trans[i].1) && fits_from(g, a, i + 1, acc) }
}
