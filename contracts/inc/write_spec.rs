// Sink model for std::io::Write (DESIGN.md section 5): "any behaviour of write()" (C07) and "any failing
// call" (C11) are exactly the models of this contract.
//@ASSUME std::io::Error is an opaque external type
#[verifier::external_type_specification]
#[verifier::external_body]
pub struct ExIoError(std::io::Error);

//@ASSUME sink model: trait specification attached to std::io::Write (ghost sink/wf/anchor/flushed/infallible; write accepts any prefix or fails leaving the sink unchanged; flush leaves the sink unchanged; a sink that declares itself infallible accepts everything and never fails). Every io::Write implementor is assumed to be a model of it (n <= buf.len() is io::Write's documented contract).
#[verifier::external_trait_specification]
#[verifier::external_trait_extension(WriteSpec via WriteSpecImpl)]
pub trait ExWrite {
    type ExternalTraitSpecificationFor: std::io::Write;
    /// bytes this sink has accepted so far
    spec fn sink(&self) -> Seq<u8>;
    spec fn wf(&self) -> bool;
    /// a ghost constant no write changes
    spec fn anchor(&self) -> nat;
    /// everything accepted so far has been flushed (true right after a successful flush; unknown after a write)
    spec fn flushed(&self) -> bool;
    /// this sink accepts every byte offered and never reports an error (a Vec<u8>); false is always a model
    spec fn infallible(&self) -> bool;

    fn write(&mut self, buf: &[u8]) -> (r: std::io::Result<usize>)
        requires old(self).wf(),
        ensures final(self).wf(), final(self).anchor() == old(self).anchor(),
            match r {
                Ok(n) => n <= buf@.len() && final(self).sink() == old(self).sink() + buf@.subrange(0, n as int),
                Err(_) => final(self).sink() == old(self).sink(),
            },
            final(self).infallible() == old(self).infallible(),
            old(self).infallible() ==> (r is Ok && r->Ok_0 == buf@.len());

    /// provided method of io::Write (std's default body loops on write, retries Interrupted, turns Ok(0) into
    /// WriteZero): trusted to have this contract for every implementor
    fn write_all(&mut self, buf: &[u8]) -> (r: std::io::Result<()>)
        requires old(self).wf(),
        ensures final(self).wf(), final(self).anchor() == old(self).anchor(),
            r is Ok ==> final(self).sink() == old(self).sink() + buf@,
            r is Err ==> exists|k: int| 0 <= k <= buf@.len() && #[trigger] (old(self).sink() + buf@.subrange(0, k)) == final(self).sink(),
            final(self).infallible() == old(self).infallible(), old(self).infallible() ==> r is Ok;

    fn flush(&mut self) -> (r: std::io::Result<()>)
        requires old(self).wf(),
        ensures final(self).wf(), final(self).sink() == old(self).sink(), final(self).anchor() == old(self).anchor(),
            r is Ok ==> final(self).flushed(),
            final(self).infallible() == old(self).infallible(), old(self).infallible() ==> r is Ok;
}

/// a call on an infallible sink succeeds, and no call changes whether the sink is infallible
pub open spec fn inf_ok<W: std::io::Write, T>(w0: W, w1: W, r: std::io::Result<T>) -> bool {
    w1.infallible() == w0.infallible() && (w0.infallible() ==> r is Ok)
}
