// what it means for a byte string to open as an FST (unit open verifies Fst::new against it; unit builder proves it of every finished build)
/// footer fields per the format description
pub open spec fn min_len(version: u64) -> int { if version <= 2 { 32 } else { 36 } }
pub open spec fn footer_end(version: u64, n: int) -> int { if version <= 2 { n } else { n - 4 } }
pub open spec fn spec_root(b: Seq<u8>) -> u64 { let v = le_u64(b.subrange(0, 8)); let e = footer_end(v, b.len() as int); le_u64(b.subrange(e - 8, e)) }
pub open spec fn spec_len(b: Seq<u8>) -> u64 { let v = le_u64(b.subrange(0, 8)); let e = footer_end(v, b.len() as int); le_u64(b.subrange(e - 16, e - 8)) }
/// "well-formed" in the sense of C10: supported version, at least the smallest file of that version, and a
/// zero root address only for the empty FST
pub open spec fn opens(b: Seq<u8>) -> bool {
    let v = le_u64(b.subrange(0, 8));
    &&& b.len() >= 8 && 1 <= v <= 3 && b.len() >= min_len(v)
    &&& (spec_root(b) == 0 ==> b.len() == min_len(v))
}

//@SRC src/raw/mod.rs :: struct Fst
pub struct Fst<D> {
    pub meta: Meta,
    pub data: D,
}


impl<D: AsRef<[u8]>> Fst<D> {
    pub open spec fn bytes(&self) -> Seq<u8> { self.data.asref_view()@ }
    /// the invariant `new` establishes (the only constructor; fields are private in /repo)
    pub open spec fn finv(&self) -> bool {
        &&& (self.meta.checksum is Some ==> self.bytes().len() >= 36)
        &&& (self.meta.checksum is Some <==> self.meta.version == 3)
    }
}
/// what `new` reports about the bytes it was given: every field of the handle is read from them
pub open spec fn opened<D: AsRef<[u8]>>(f: Fst<D>, data: D) -> bool {
    let b = data.asref_view()@;
    &&& f.data == data && f.finv()
    &&& f.meta.version == le_u64(b.subrange(0, 8)) && 1 <= f.meta.version <= 3
    &&& f.meta.ty == le_u64(b.subrange(8, 16))
    &&& f.meta.root_addr == spec_root(b) && f.meta.len == spec_len(b)
    &&& (f.meta.checksum is Some <==> f.meta.version == 3)
    &&& (f.meta.checksum is Some ==> b.len() >= 36 && f.meta.checksum->Some_0 == le_u32(b.subrange(b.len() - 4, b.len() as int)))
}
