// node shapes every emitted node has (C12 minimality, machine arithmetic of the readers); shared by units builder, compose, minimal
pub open spec fn is_empty_final(n: BNode) -> bool { n.is_final && n.trans.len() == 0 && n.fo == 0 }
/// the node is not a dead end
pub open spec fn live_node(n: BNode) -> bool { n.is_final || n.trans.len() > 0 }
/// outputs are non-negative and only a final node carries a final output
pub open spec fn nonneg_node(n: BNode) -> bool { n.fo >= 0 && (!n.is_final ==> n.fo == 0) && forall|i: int| 0 <= i < n.trans.len() ==> (#[trigger] n.trans[i]).out >= 0 }
pub open spec fn zero_node(n: BNode) -> bool { n.fo == 0 && forall|i: int| 0 <= i < n.trans.len() ==> (#[trigger] n.trans[i]).out == 0 }
/// z: "no value but 0 has been inserted" (a set)
pub open spec fn node_ok(n: BNode, z: bool) -> bool { live_node(n) && nonneg_node(n) && !is_empty_final(n) && (z ==> zero_node(n)) }
pub open spec fn gok(g: G, z: bool) -> bool { forall|a: nat| g.dom().contains(a) ==> node_ok(#[trigger] g[a], z) }
/// as gok, except that the root may be a dead end (the root of a file without keys)
pub open spec fn gok_but(g: G, root: nat, z: bool) -> bool {
    forall|a: nat| g.dom().contains(a) ==> (if a == root { nonneg_node(#[trigger] g[a]) && !is_empty_final(g[a]) && (z ==> zero_node(g[a])) } else { node_ok(g[a], z) })
}
pub open spec fn zvals(es: Seq<(Seq<u8>, int)>) -> bool { forall|i: int| 0 <= i < es.len() ==> (#[trigger] es[i]).1 == 0 }
pub open spec fn vals_fit(es: Seq<(Seq<u8>, int)>) -> bool { forall|i: int| 0 <= i < es.len() ==> 0 <= (#[trigger] es[i]).1 <= u64::MAX }
/// no node has been written twice
pub open spec fn nodup(g: G) -> bool { forall|a: nat, b: nat| g.dom().contains(a) && g.dom().contains(b) && a != b ==> #[trigger] g[a] != #[trigger] g[b] }
/// length of the longest common prefix
pub open spec fn lcp(a: Seq<u8>, b: Seq<u8>) -> nat
    decreases a.len()
{
    if a.len() == 0 || b.len() == 0 || a[0] != b[0] { 0 } else { 1 + lcp(a.drop_first(), b.drop_first()) }
}
/// number of non-root nodes of the prefix trie of a sorted key list: each key adds what it does not share with its predecessor
pub open spec fn tsz(es: Seq<(Seq<u8>, int)>) -> nat
    decreases es.len()
{
    if es.len() == 0 { 0 } else {
        let prev = if es.len() >= 2 { es[es.len() - 2].0 } else { Seq::<u8>::empty() };
        (tsz(es.drop_last()) + es.last().0.len() - lcp(prev, es.last().0)) as nat
    }
}
/// below node `a` some key carries no output at all: what the values below a node have in common sits on the transition that
/// leads to it (C16: get_key's greedy descent relies on it)
pub open spec fn tightg(g: G, a: nat) -> bool
    decreases a, 1int, 0int
    when gwf(g) && (a == 0 || g.dom().contains(a))
{
    let n = gnode(g, a);
    (n.is_final && n.fo == 0) || tight_tr(g, a, n.trans, 0)
}
pub open spec fn tight_tr(g: G, bound: nat, trans: Seq<BT>, i: int) -> bool
    decreases bound, 0int, trans.len() - i
    when gwf(g) && i >= 0 && targets_ok(g, trans, bound)
{
    if i >= trans.len() { false } else { (trans[i].out == 0 && tightg(g, trans[i].addr)) || tight_tr(g, bound, trans, i + 1) }
}
/// every emitted node is tight (while building: the root has not been written yet)
pub open spec fn gtight(g: G) -> bool { forall|a: nat| g.dom().contains(a) ==> #[trigger] tightg(g, a) }
/// every emitted node but the root is tight
pub open spec fn gtight_but(g: G, root: nat) -> bool { forall|a: nat| g.dom().contains(a) && a != root ==> #[trigger] tightg(g, a) }
/// values strictly increase along a listing
pub open spec fn vmono(l: Seq<(Seq<u8>, int)>) -> bool { forall|i: int, j: int| 0 <= i < j < l.len() ==> (#[trigger] l[i]).1 < (#[trigger] l[j]).1 }
