// node shapes every emitted node has (C12 minimality, machine arithmetic of the readers); shared by units builder, compose, minimal
pub open spec fn is_empty_final(n: BNode) -> bool { n.is_final && n.trans.len() == 0 && n.fo == 0 }
/// the node is not a dead end
pub open spec fn live_node(n: BNode) -> bool { n.is_final || n.trans.len() > 0 }
/// outputs are non-negative and only a final node carries a final output
pub open spec fn nonneg_node(n: BNode) -> bool { n.fo >= 0 && (!n.is_final ==> n.fo == 0) && forall|i: int| 0 <= i < n.trans.len() ==> (#[trigger] n.trans[i]).out >= 0 }
pub open spec fn zero_node(n: BNode) -> bool { n.fo == 0 && forall|i: int| 0 <= i < n.trans.len() ==> (#[trigger] n.trans[i]).out == 0 }
/// z: "no value but 0 has been inserted" (a set)
pub open spec fn node_ok(n: BNode, z: bool) -> bool { live_node(n) && nonneg_node(n) && !is_empty_final(n) && (z ==> zero_node(n)) }
pub open spec fn gok(g: G, z: bool) -> bool { forall|a: nat| g.dom().contains(a) ==> node_ok(#[trigger] g[a], z) }
/// as gok, except that the root may be a dead end (the root of a file without keys)
pub open spec fn gok_but(g: G, root: nat, z: bool) -> bool {
    forall|a: nat| g.dom().contains(a) ==> (if a == root { nonneg_node(#[trigger] g[a]) && !is_empty_final(g[a]) && (z ==> zero_node(g[a])) } else { node_ok(g[a], z) })
}
pub open spec fn zvals(es: Seq<(Seq<u8>, int)>) -> bool { forall|i: int| 0 <= i < es.len() ==> (#[trigger] es[i]).1 == 0 }
pub open spec fn vals_fit(es: Seq<(Seq<u8>, int)>) -> bool { forall|i: int| 0 <= i < es.len() ==> 0 <= (#[trigger] es[i]).1 <= u64::MAX }
/// no node has been written twice
pub open spec fn nodup(g: G) -> bool { forall|a: nat, b: nat| g.dom().contains(a) && g.dom().contains(b) && a != b ==> #[trigger] g[a] != #[trigger] g[b] }
