// ---------------- what a key maps to in a graph (the `lookup` the properties mean) ----------------
pub open spec fn wf_node(n: NV) -> bool {
    forall|i: int, j: int| 0 <= i < j < n.trans.len() ==> n.trans[i].0 != n.trans[j].0
}
pub open spec fn step(n: NV, b: u8) -> Option<int> {
    if exists|i: int| 0 <= i < n.trans.len() && n.trans[i].0 == b {
        Some(choose|i: int| 0 <= i < n.trans.len() && n.trans[i].0 == b)
    } else { None }
}
/// walk `key` from addr accumulating outputs: Some((addr, sum)) or None when a byte has no transition
pub open spec fn walk(g: GR, addr: nat, key: Seq<u8>) -> Option<(nat, int)>
    decreases key.len(),
{
    if key.len() == 0 { Some((addr, 0int)) } else {
        match walk(g, addr, key.drop_last()) {
            None => None,
            Some((a, sum)) => {
                let n = node_at(g, a);
                match step(n, key.last()) {
                    None => None,
                    Some(i) => Some((n.trans[i].2, sum + n.trans[i].1)),
                }
            }
        }
    }
}
pub open spec fn lookup(g: GR, root: nat, key: Seq<u8>) -> Option<int> {
    match walk(g, root, key) {
        None => None,
        Some((a, sum)) => { let n = node_at(g, a); if n.is_final { Some(sum + n.fo) } else { None } }
    }
}
/// the graph is closed under its transitions and deterministic
pub open spec fn wf_all(g: GR) -> bool {
    g_closed(g) && forall|a: nat| #[trigger] wf_node(node_at(g, a))
}
pub open spec fn sums_fit(g: GR, root: nat) -> bool {
    forall|k: Seq<u8>| match #[trigger] walk(g, root, k) { None => true, Some((a, sum)) => sum + node_at(g, a).fo <= u64::MAX }
}
