// where the fields of a node lie, read backwards from its state byte (format description)
pub open spec fn le_value(s: Seq<u8>) -> nat decreases s.len() {
    if s.len() == 0 { 0 } else { s[0] as nat + 256 * le_value(s.drop_first()) }
}
pub open spec fn sp_osize(sz: u8) -> nat { (sz & 0x0f) as nat }
pub open spec fn sp_tsize(sz: u8) -> nat { (sz >> 4) as nat }
pub open spec fn at_cnt_len(v: u8) -> nat { if v & 0x3f == 0 { 1 } else { 0 } }
pub open spec fn at_final(v: u8) -> bool { v & 0x40 == 0x40 }
pub open spec fn at_index_size(version: u64, n: nat) -> nat { if version >= 2 && n > 32 { 256 } else { 0 } }
pub struct AtLayout { pub start: int, pub n: nat, pub os: nat, pub ts: nat, pub fin: bool, pub idx: nat, pub cnt: nat }
impl AtLayout {
    pub open spec fn fo(self) -> nat { if self.fin { self.os } else { 0 } }
    pub open spec fn off_outs(self) -> int { self.start + self.fo() }
    pub open spec fn off_deltas(self) -> int { self.off_outs() + self.n * self.os }
    pub open spec fn off_inputs(self) -> int { self.off_deltas() + self.n * self.ts }
    pub open spec fn off_index(self) -> int { self.off_inputs() + self.n }
    pub open spec fn off_sizes(self) -> int { self.off_index() + self.idx }
    pub open spec fn addr(self) -> int { self.off_sizes() + 1 + self.cnt }
    pub open spec fn input_at(self, i: int) -> int { self.off_inputs() + (self.n - 1 - i) }
    pub open spec fn delta_at(self, i: int) -> int { self.off_deltas() + (self.n - 1 - i) * self.ts }
    pub open spec fn out_at(self, i: int) -> int { self.off_outs() + (self.n - 1 - i) * self.os }
}
pub open spec fn dec_layout(s: Seq<u8>, a: int, version: u64) -> AtLayout {
    let v = s[a];
    let cnt = at_cnt_len(v);
    let n: nat = if cnt == 0 { (v & 0x3f) as nat } else if s[a - 1] == 1 { 256 } else { s[a - 1] as nat };
    let sz = s[a - cnt - 1];
    let os = sp_osize(sz); let ts = sp_tsize(sz);
    let fin = at_final(v);
    let idx = at_index_size(version, n);
    let start = a - cnt - 1 - idx - n - n * ts - n * os - (if fin { os } else { 0 });
    AtLayout { start, n, os, ts, fin, idx, cnt }
}
pub uninterp spec fn common_inp_s(ci: u8) -> u8;
pub open spec fn inlen(v: u8) -> nat { if v & 0x3f == 0 { 1 } else { 0 } }
pub open spec fn dec_input(s: Seq<u8>, a: int) -> u8 { if s[a] & 0x3f == 0 { s[a - 1] } else { common_inp_s(s[a] & 0x3f) } }
pub open spec fn dec_otn_start(s: Seq<u8>, a: int) -> int { a - inlen(s[a]) }
pub open spec fn dec_ot_sizes(s: Seq<u8>, a: int) -> u8 { s[a - inlen(s[a]) - 1] }
pub open spec fn dec_ot_start(s: Seq<u8>, a: int) -> int {
    let sz = dec_ot_sizes(s, a);
    a - inlen(s[a]) - 1 - sp_tsize(sz) - sp_osize(sz)
}
