// ghost view of a builder node
pub open spec fn tview(t: Transition) -> BT { BT { inp: t.inp, out: t.out.0 as int, addr: t.addr as nat } }
pub open spec fn nview(n: &BuilderNode) -> BNode {
    BNode { is_final: n.is_final, fo: n.final_output.0 as int, trans: Seq::new(n.trans@.len(), |i: int| tview(n.trans@[i])) }
}
