/// a decoded node as a value: (input, output, target) per transition
pub struct NV { pub is_final: bool, pub fo: u64, pub trans: Seq<(u8, u64, nat)> }
