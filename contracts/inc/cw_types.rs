pub struct CheckSummer { pub sum: u32 }

//@SRC src/raw/counting_writer.rs :: struct CountingWriter
#[verifier::reject_recursive_types(W)]
pub struct CountingWriter<W> {
    pub wtr: W,
    pub cnt: u64,
    pub summer: CheckSummer,
}
impl<W: io::Write> CountingWriter<W> {
    /// everything the inner sink holds / where this writer's own output starts
    pub open spec fn full(&self) -> Seq<u8> { self.wtr.sink() }
    pub open spec fn anch(&self) -> nat { (self.wtr.sink().len() - self.cnt) as nat }
    pub open spec fn own(&self) -> Seq<u8> { self.wtr.sink().skip(self.wtr.sink().len() - self.cnt) }
    pub open spec fn base(&self) -> Seq<u8> { self.wtr.sink().take(self.wtr.sink().len() - self.cnt) }
    pub open spec fn cw_wf(&self) -> bool {
        self.wtr.wf() && self.cnt <= self.wtr.sink().len() && self.summer.sum == crc32c(self.own())
    }
}
impl<W: io::Write> WriteSpecImpl for CountingWriter<W> {
    open spec fn sink(&self) -> Seq<u8> { self.wtr.sink() }
    open spec fn wf(&self) -> bool { self.cw_wf() }
    open spec fn anchor(&self) -> nat { (self.wtr.sink().len() - self.cnt) as nat }
    open spec fn flushed(&self) -> bool { self.wtr.flushed() }
    open spec fn infallible(&self) -> bool { self.wtr.infallible() }
}

