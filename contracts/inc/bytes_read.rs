pub mod bytes {
    use vstd::prelude::*;
    //@ASSUME bytes::read_u32_le(s) == le_u32(s[..4]) for |s| >= 4: discharged by K-bytes `read_le` (loop-free, complete)
    #[verifier::external_body]
    pub fn read_u32_le(slice: &[u8]) -> (r: u32)
        requires slice@.len() >= 4,
        ensures r == super::le_u32(slice@),
    { unimplemented!() }

    //@ASSUME bytes::read_u64_le(s) == le_u64(s[..8]) for |s| >= 8: discharged by K-bytes `read_le` (loop-free, complete)
    #[verifier::external_body]
    pub fn read_u64_le(slice: &[u8]) -> (r: u64)
        requires slice@.len() >= 8,
        ensures r == super::le_u64(slice@),
    { unimplemented!() }
}
