// the decoder's view of a node as a function of the file bytes, and when an address can be decoded inside the file:
// shared by unit decode (whose real accessors are verified against it) and unit layout (which proves it of every emitted node)
pub open spec fn cls(v: u8) -> u8 { (v & 0b11_000000) >> 6 }
/// the bytes up to `a` hold a plausible any-trans node ending at `a`
pub open spec fn well_at(s: Seq<u8>, a: int, version: u64) -> bool {
    let l = dec_layout(s, a, version);
    1 <= a < s.len() && l.start >= 0 && l.os <= 8 && l.ts <= 8 && (l.n > 0 ==> l.ts >= 1) && (l.fin || l.n > 0 ==> true)
}
/// the stored input bytes, in transition order
pub open spec fn inp_of(s: Seq<u8>, l: AtLayout, i: int) -> u8 { s[l.input_at(i)] }
pub open spec fn inputs_sorted(s: Seq<u8>, l: AtLayout) -> bool { forall|i: int, j: int| 0 <= i < j < l.n ==> inp_of(s, l, i) < inp_of(s, l, j) }
/// what the writer puts into the 256-byte index (contract of the hoisted `enumerate` loop, K-scan): position of the transition on b, else 255
pub open spec fn index_ok(s: Seq<u8>, l: AtLayout) -> bool {
    forall|b: int| 0 <= b < 256 ==>
        ((exists|i: int| 0 <= i < l.n && inp_of(s, l, i) == b) ==> 0 <= (#[trigger] s[l.off_index() + b]) < l.n && inp_of(s, l, s[l.off_index() + b] as int) == b)
        && (!(exists|i: int| 0 <= i < l.n && inp_of(s, l, i) == b) ==> s[l.off_index() + b] == 255)
}
pub open spec fn at_trans(s: Seq<u8>, l: AtLayout, i: int) -> (u8, u64, nat) {
    let out = if l.os == 0 { 0u64 } else { le_value(s.subrange(l.out_at(i), l.out_at(i) + l.os)) as u64 };
    let d = le_value(s.subrange(l.delta_at(i), l.delta_at(i) + l.ts));
    (s[l.input_at(i)], out, if d == 0 { 0nat } else { (l.start - d) as nat })
}
pub open spec fn ot_out(s: Seq<u8>, a: int) -> u64 {
    let st = dec_ot_start(s, a); let os = sp_osize(dec_ot_sizes(s, a));
    if os == 0 { 0u64 } else { le_value(s.subrange(st, st + os)) as u64 }
}
pub open spec fn ot_delta(s: Seq<u8>, a: int) -> nat {
    let st = dec_ot_start(s, a); let sz = dec_ot_sizes(s, a);
    le_value(s.subrange(st + sp_osize(sz), st + sp_osize(sz) + sp_tsize(sz)))
}
/// the node whose state byte sits at address `a` of the byte string `s` - a function of the bytes alone
pub open spec fn dec_view(s: Seq<u8>, a: int, version: u64) -> NV {
    if a == 0 {
        NV { is_final: true, fo: 0, trans: Seq::empty() }
    } else if cls(s[a]) == 3 {
        NV { is_final: false, fo: 0, trans: seq![(dec_input(s, a), 0u64, (dec_otn_start(s, a) - 1) as nat)] }
    } else if cls(s[a]) == 2 {
        let st = dec_ot_start(s, a); let d = ot_delta(s, a);
        NV { is_final: false, fo: 0, trans: seq![(dec_input(s, a), ot_out(s, a), if d == 0 { 0nat } else { (st - d) as nat })] }
    } else {
        let l = dec_layout(s, a, version);
        NV { is_final: l.fin,
             fo: if l.os == 0 || !l.fin { 0u64 } else { le_value(s.subrange(l.start, l.start + l.os)) as u64 },
             trans: Seq::new(l.n, |i: int| at_trans(s, l, i)) }
    }
}
/// the bytes up to `a` hold a node ending at `a` that can be decoded without leaving the file
pub open spec fn plausible(s: Seq<u8>, a: int, version: u64) -> bool {
    a == 0 || (1 <= a < s.len() && a < usize::MAX && (
        if cls(s[a]) == 3 { dec_otn_start(s, a) >= 1 }
        else if cls(s[a]) == 2 {
            let sz = dec_ot_sizes(s, a);
            a - inlen(s[a]) - 1 >= 0 && dec_ot_start(s, a) >= 0 && 1 <= sp_tsize(sz) <= 8 && sp_osize(sz) <= 8 && ot_delta(s, a) <= dec_ot_start(s, a)
        } else {
            let l = dec_layout(s, a, version);
            a - at_cnt_len(s[a]) - 1 >= 0 && well_at(s, a, version)
            && forall|i: int| 0 <= i < l.n ==> le_value(#[trigger] s.subrange(l.delta_at(i), l.delta_at(i) + l.ts)) <= l.start
        }))
}
/// what find_input needs of the bytes at an any-trans node: inputs strictly increase, and the index (when the format
/// version has one for this fan-out) is the writer's - a property of the file, not of the Node value
pub open spec fn searchable_at(s: Seq<u8>, a: int, version: u64) -> bool {
    a != 0 && cls(s[a]) != 3 && cls(s[a]) != 2 ==> { let l = dec_layout(s, a, version);
        inputs_sorted(s, l) && (l.idx == 256 ==> index_ok(s, l)) }
}
