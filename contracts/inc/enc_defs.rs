// forward layout of the three node forms, written from the format description (DESIGN.md section 5)
pub open spec fn delta(addr: usize, ta: usize) -> u64 { if ta == 0 { 0 } else { (addr - ta) as u64 } }
pub open spec fn maxn(a: nat, b: nat) -> nat { if a >= b { a } else { b } }
pub open spec fn max_os(t: Seq<Transition>, fo: u64, k: int) -> nat decreases k {
    if k <= 0 { pw(fo) } else { maxn(max_os(t, fo, k - 1), pw(t[k - 1].out.0)) }
}
pub open spec fn max_ts(t: Seq<Transition>, addr: usize, k: int) -> nat decreases k {
    if k <= 0 { 0 } else { maxn(max_ts(t, addr, k - 1), pw(delta(addr, t[k - 1].addr))) }
}
pub open spec fn any_out(t: Seq<Transition>, fo: u64, k: int) -> bool decreases k {
    if k <= 0 { fo != 0 } else { any_out(t, fo, k - 1) || t[k - 1].out.0 != 0 }
}
/// parts[n-1] + parts[n-2] + ... + parts[n-k]
pub open spec fn rev_cat(parts: Seq<Seq<u8>>, k: int) -> Seq<u8> decreases k {
    if k <= 0 { Seq::empty() } else { rev_cat(parts, k - 1) + parts[parts.len() - k] }
}
pub open spec fn outs_parts(t: Seq<Transition>, os: nat) -> Seq<Seq<u8>> { Seq::new(t.len(), |i: int| le_bytes(t[i].out.0 as nat, os)) }
pub open spec fn delta_parts(t: Seq<Transition>, addr: usize, ts: nat) -> Seq<Seq<u8>> { Seq::new(t.len(), |i: int| le_bytes(delta(addr, t[i].addr) as nat, ts)) }
pub open spec fn inp_parts(t: Seq<Transition>) -> Seq<Seq<u8>> { Seq::new(t.len(), |i: int| seq![t[i].inp]) }
/// the 256-entry transition index after the first k transitions have been entered into the all-255 table
pub open spec fn idx_upto(t: Seq<Transition>, k: int) -> Seq<u8>
    decreases k
{
    if k <= 0 { Seq::new(256, |b: int| 255u8) } else { idx_upto(t, k - 1).update(t[k - 1].inp as int, (k - 1) as u8) }
}
/// index[b] = position of the (last) transition on b, else 255
pub open spec fn index_table(t: Seq<Transition>) -> Seq<u8> { idx_upto(t, t.len() as int) }

/// forward layout of an any-trans node, field by field
pub open spec fn f_ao(n: &BuilderNode) -> bool { any_out(n.trans@, n.final_output.0, n.trans@.len() as int) }
pub open spec fn f_os(n: &BuilderNode) -> nat { if f_ao(n) { max_os(n.trans@, n.final_output.0, n.trans@.len() as int) } else { 0 } }
pub open spec fn f_ts(n: &BuilderNode, addr: usize) -> nat { max_ts(n.trans@, addr, n.trans@.len() as int) }
pub open spec fn f_fo(n: &BuilderNode) -> Seq<u8> { if f_ao(n) && n.is_final { le_bytes(n.final_output.0 as nat, f_os(n)) } else { Seq::<u8>::empty() } }
pub open spec fn f_outs(n: &BuilderNode) -> Seq<u8> { if f_ao(n) { rev_cat(outs_parts(n.trans@, f_os(n)), n.trans@.len() as int) } else { Seq::<u8>::empty() } }
pub open spec fn f_deltas(n: &BuilderNode, addr: usize) -> Seq<u8> { rev_cat(delta_parts(n.trans@, addr, f_ts(n, addr)), n.trans@.len() as int) }
pub open spec fn f_inps(n: &BuilderNode) -> Seq<u8> { rev_cat(inp_parts(n.trans@), n.trans@.len() as int) }
pub open spec fn f_idx(n: &BuilderNode) -> Seq<u8> { if n.trans@.len() > 32 { index_table(n.trans@) } else { Seq::<u8>::empty() } }
pub open spec fn sizes_byte(n: &BuilderNode, addr: usize) -> u8 { ((f_ts(n, addr) as u8) << 4) | (f_os(n) as u8) }
pub open spec fn f_cnt(n: &BuilderNode) -> Seq<u8> {
    let len = n.trans@.len();
    if len == 0 || len >= 64 { seq![if len == 256 { 1u8 } else { len as u8 }] } else { Seq::<u8>::empty() }
}
pub open spec fn state_byte(n: &BuilderNode) -> u8 {
    (if n.is_final { 0b01_000000u8 } else { 0u8 }) | (if n.trans@.len() <= 63 { n.trans@.len() as u8 } else { 0u8 })
}
pub open spec fn at_bytes(n: &BuilderNode, addr: usize) -> Seq<u8> {
    f_fo(n) + f_outs(n) + f_deltas(n, addr) + f_inps(n) + f_idx(n) + seq![sizes_byte(n, addr)] + f_cnt(n) + seq![state_byte(n)]
}
/// common-input table: index 1..=63 of a frequent byte, 0 otherwise (K-tables: the real table equals this)
pub uninterp spec fn common_idx_s(b: u8) -> u8;
pub open spec fn otn_bytes(inp: u8) -> Seq<u8> {
    let ci = common_idx_s(inp);
    (if ci == 0 { seq![inp] } else { Seq::<u8>::empty() }) + seq![0b11_000000u8 | ci]
}
pub open spec fn ot_os(t: Transition) -> nat { if t.out.0 == 0 { 0 } else { pw(t.out.0) } }
pub open spec fn ot_bytes(t: Transition, addr: usize) -> Seq<u8> {
    let os = ot_os(t);
    let d = delta(addr, t.addr);
    let ts = pw(d);
    let ci = common_idx_s(t.inp);
    le_bytes(t.out.0 as nat, os) + le_bytes(d as nat, ts) + seq![((ts as u8) << 4) | (os as u8)]
      + (if ci == 0 { seq![t.inp] } else { Seq::<u8>::empty() }) + seq![0b10_000000u8 | ci]
}
pub open spec fn is_empty_final_node(n: &BuilderNode) -> bool { n.trans@.len() == 0 && n.is_final && n.final_output.0 == 0 }
/// what `compile_to` appends for a node: the choice of form is part of the format
pub open spec fn node_bytes(n: &BuilderNode, addr: usize, last_addr: usize) -> Seq<u8> {
    if is_empty_final_node(n) { Seq::<u8>::empty() }
    else if n.trans@.len() != 1 || n.is_final { at_bytes(n, addr) }
    else if n.trans@[0].addr == last_addr && n.trans@[0].out.0 == 0 { otn_bytes(n.trans@[0].inp) }
    else { ot_bytes(n.trans@[0], addr) }
}
