// the transducer a byte string denotes: one vocabulary for writer and readers (DESIGN.md section 5)
//@INCLUDE inc/bnode_types.rs
pub open spec fn dec_trans(s: Seq<u8>, l: AtLayout, i: int) -> BT {
    let d = le_value(s.subrange(l.delta_at(i), l.delta_at(i) + l.ts));
    BT { inp: s[l.input_at(i)],
         out: if l.os == 0 { 0 } else { le_value(s.subrange(l.out_at(i), l.out_at(i) + l.os)) as int },
         addr: if d == 0 { 0 } else { (l.start - d) as nat } }
}
pub open spec fn dec_node(s: Seq<u8>, a: int, version: u64) -> BNode {
    let l = dec_layout(s, a, version);
    BNode { is_final: l.fin,
            fo: if l.fin && l.os > 0 { le_value(s.subrange(l.start, l.start + l.os)) as int } else { 0 },
            trans: Seq::new(l.n, |i: int| dec_trans(s, l, i)) }
}
pub open spec fn dec_otn(s: Seq<u8>, a: int) -> BNode {
    BNode { is_final: false, fo: 0, trans: seq![BT { inp: dec_input(s, a), out: 0, addr: (dec_otn_start(s, a) - 1) as nat }] }
}
pub open spec fn dec_ot(s: Seq<u8>, a: int) -> BNode {
    let sz = dec_ot_sizes(s, a); let os = sp_osize(sz); let ts = sp_tsize(sz);
    let st = dec_ot_start(s, a);
    let d = le_value(s.subrange(st + os, st + os + ts));
    BNode { is_final: false, fo: 0, trans: seq![BT {
        inp: dec_input(s, a),
        out: if os == 0 { 0 } else { le_value(s.subrange(st, st + os)) as int },
        addr: if d == 0 { 0 } else { (st - d) as nat } }] }
}
/// the decoder's dispatch on the two top bits of the state byte
pub open spec fn dec(s: Seq<u8>, a: int, version: u64) -> BNode {
    if s[a] & 0xc0 == 0xc0 { dec_otn(s, a) } else if s[a] & 0xc0 == 0x80 { dec_ot(s, a) } else { dec_node(s, a, version) }
}
pub open spec fn dec_start(s: Seq<u8>, a: int, version: u64) -> int {
    if s[a] & 0xc0 == 0xc0 { dec_otn_start(s, a) } else if s[a] & 0xc0 == 0x80 { dec_ot_start(s, a) } else { dec_layout(s, a, version).start }
}
pub type G = vstd::map::Map<nat, BNode>;
pub open spec fn hdr() -> nat { 16 }
/// the emitted graph: the body parsed backwards from its last state byte, node by node, down to the 16-byte header
pub open spec fn graph(s: Seq<u8>, version: u64) -> G
    decreases s.len(),
{
    if s.len() <= hdr() { vstd::map::Map::empty() }
    else {
        let a = s.len() - 1;
        let st = dec_start(s, a, version);
        if hdr() <= st <= a { graph(s.subrange(0, st), version).insert(a as nat, dec(s, a, version)) } else { vstd::map::Map::empty() }
    }
}
