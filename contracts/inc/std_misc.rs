//@ASSUME std: core::mem::take returns the old value (what it leaves behind is not constrained here)
pub assume_specification<T: Default> [core::mem::take::<T>] (dest: &mut T) -> (r: T)
    ensures r == *old(dest);
//@ASSUME std: core::mem::replace returns the old value and stores the new one
pub assume_specification<T> [core::mem::replace::<T>] (dest: &mut T, src: T) -> (r: T)
    ensures r == *old(dest), *final(dest) == src;
