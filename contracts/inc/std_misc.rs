//@ASSUME std: core::mem::take returns the old value (what it leaves behind is not constrained here)
pub assume_specification<T: Default> [core::mem::take::<T>] (dest: &mut T) -> (r: T)
    ensures r == *old(dest);
//@ASSUME std: core::mem::replace returns the old value and stores the new one
pub assume_specification<T> [core::mem::replace::<T>] (dest: &mut T, src: T) -> (r: T)
    ensures r == *old(dest), *final(dest) == src;
//@ASSUME std: Result::and_then calls the closure on the Ok value and passes an Err through unchanged
pub assume_specification<T, E, U, F: FnOnce(T) -> core::result::Result<U, E>> [core::result::Result::<T, E>::and_then] (r: core::result::Result<T, E>, op: F) -> (res: core::result::Result<U, E>)
    requires r is Ok ==> op.requires((r->Ok_0,)),
    ensures match r { Ok(t) => op.ensures((t,), res), Err(e) => res == core::result::Result::<U, E>::Err(e) };
