// the listing of the emitted graph as the builder maintains it (shared with unit compose)
pub open spec fn empty_final() -> BNode { BNode { is_final: true, fo: 0, trans: Seq::empty() } }
pub open spec fn gnode(g: G, a: nat) -> BNode { if a == 0 { empty_final() } else { g[a] } }
/// every transition of every emitted node points to an earlier emitted node or to 0
pub open spec fn targets_ok(g: G, trans: Seq<BT>, bound: nat) -> bool {
    forall|i: int| 0 <= i < trans.len() ==> (#[trigger] trans[i]).addr < bound && (trans[i].addr == 0 || g.dom().contains(trans[i].addr))
}
pub open spec fn gwf(g: G) -> bool {
    &&& !g.dom().contains(0)
    &&& forall|a: nat| g.dom().contains(a) ==> #[trigger] targets_ok(g, g[a].trans, a)
}

pub open spec fn own(n: BNode, p: Seq<u8>, acc: int) -> Seq<Entry> {
    if n.is_final { seq![(p, acc + n.fo)] } else { Seq::<Entry>::empty() }
}
/// listing below emitted node a
pub open spec fn lst(g: G, a: nat, p: Seq<u8>, acc: int) -> Seq<Entry>
    decreases a, 1int, 0int
    when gwf(g) && (a == 0 || g.dom().contains(a))
{
    let n = gnode(g, a);
    own(n, p, acc) + flst(g, a, n.trans, 0, p, acc)
}
/// listing through the (frozen) transitions i.. of a transition list whose targets are all below `bound`
pub open spec fn flst(g: G, bound: nat, trans: Seq<BT>, i: int, p: Seq<u8>, acc: int) -> Seq<Entry>
    decreases bound, 0int, trans.len() - i
    when gwf(g) && i >= 0 && targets_ok(g, trans, bound)
{
    if i >= trans.len() { Seq::<Entry>::empty() }
    else { lst(g, trans[i].addr, p.push(trans[i].inp), acc + trans[i].out) + flst(g, bound, trans, i + 1, p, acc) }
}
