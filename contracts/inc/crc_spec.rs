// CRC-32C (Castagnoli, reflected) bit at a time, Snappy-style masking: written from the property statement
// (C08) and the format description, independent of the table-driven code.
pub open spec fn bit_step1(c: u32) -> u32 { if c & 1 == 1 { (c >> 1) ^ 0x82f63b78u32 } else { c >> 1 } }
pub open spec fn bit_step(c: u32, b: u8) -> u32 {
    let c0 = c ^ (b as u32);
    bit_step1(bit_step1(bit_step1(bit_step1(bit_step1(bit_step1(bit_step1(bit_step1(c0))))))))
}
pub open spec fn crc_fold(c: u32, s: Seq<u8>) -> u32 decreases s.len(),
{
    if s.len() == 0 { c } else { crc_fold(bit_step(c, s[0]), s.drop_first()) }
}
pub open spec fn crc32c(s: Seq<u8>) -> u32 { !crc_fold(!0u32, s) }
pub open spec fn rot15(x: u32) -> u32 { (x >> 15) | (x << 17) }
pub open spec fn mask(x: u32) -> u32 { ((rot15(x) as int + 0xA282EAD8int) % 0x1_0000_0000int) as u32 }
pub open spec fn masked_crc(s: Seq<u8>) -> u32 { mask(crc32c(s)) }
pub open spec fn le_u32(s: Seq<u8>) -> u32 recommends s.len() >= 4,
{
    (s[0] as u32) | (s[1] as u32) << 8 | (s[2] as u32) << 16 | (s[3] as u32) << 24
}

pub proof fn lemma_fold_concat(c: u32, a: Seq<u8>, b: Seq<u8>)
    ensures crc_fold(c, a + b) == crc_fold(crc_fold(c, a), b),
    decreases a.len(),
{
    if a.len() == 0 {
        assert(a + b =~= b);
    } else {
        assert((a + b).drop_first() =~= a.drop_first() + b);
        lemma_fold_concat(bit_step(c, a[0]), a.drop_first(), b);
    }
}
pub proof fn lemma_fold_empty(c: u32)
    ensures crc_fold(c, Seq::<u8>::empty()) == c,
{
}
