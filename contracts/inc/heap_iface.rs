// Interface of the stream heap (unit heap): opaque type, contracts token-identical to the ones unit heap verifies on
// the real bodies over the std BinaryHeap contract (//@CONTRACT-OF). heads / rests / hinv / n are uninterpreted here.
//@ASSUME StreamHeap is opaque here: its representation (BinaryHeap of slots + the boxed streams) is the subject of unit heap
#[verifier::external_body]
pub struct StreamHeap<'f> { x: &'f u8 }
impl<'f> StreamHeap<'f> {
    /// items not yet pulled from each stream
    pub uninterp spec fn rests(&self) -> Seq<Seq<Item>>;
    /// the item of each stream that currently sits in the heap
    pub uninterp spec fn heads(&self) -> Seq<Option<Item>>;
    /// representation invariant of the heap (at most one slot per stream)
    pub uninterp spec fn hinv(&self) -> bool;
    pub uninterp spec fn n(&self) -> int;
    pub open spec fn heads_ge(&self, k: Seq<u8>) -> bool {
        forall|i: int| 0 <= i < self.heads().len() && (#[trigger] self.heads()[i]) is Some ==> lex_le(k, self.heads()[i]->Some_0.0)
    }
    pub open spec fn no_heads(&self) -> bool { forall|i: int| 0 <= i < self.heads().len() ==> (#[trigger] self.heads()[i]) is None }
    pub open spec fn min_is(&self, k: Seq<u8>) -> bool {
        (exists|m: int| 0 <= m < self.heads().len() && (#[trigger] self.heads()[m]) is Some && self.heads()[m]->Some_0.0 == k) && self.heads_ge(k)
    }
    pub open spec fn primed_upto(&self, k: int) -> bool {
        forall|i: int| 0 <= i < k && (#[trigger] self.rests()[i]).len() > 0 ==> self.heads()[i] is Some
    }
    //@ASSUME StreamHeap::num_slots: contract verified on the real body in unit heap
    //@CONTRACT-OF heap :: impl StreamHeap :: fn num_slots
    #[verifier::external_body]
        fn num_slots(&self) -> (r: usize) ensures r == self.rests().len()
    { unimplemented!() }
    //@ASSUME StreamHeap::pop: contract verified on the real body in unit heap
    //@CONTRACT-OF heap :: impl StreamHeap :: fn pop
    #[verifier::external_body]
        fn pop(&mut self) -> (r: Option<Slot>)
        requires old(self).hinv()
        ensures final(self).hinv(), final(self).rests() == old(self).rests(),
            match r {
                None => old(self).no_heads() && final(self).heads() == old(self).heads(),
                Some(s) => 0 <= s.idx < old(self).heads().len() && old(self).heads()[s.idx as int] == Some(s.item())
                    && final(self).heads() == old(self).heads().update(s.idx as int, None)
                    && old(self).heads_ge(s.input@),
            }
    { unimplemented!() }
    //@ASSUME StreamHeap::refill: contract verified on the real body in unit heap
    //@CONTRACT-OF heap :: impl StreamHeap :: fn refill
    #[verifier::external_body]
        fn refill(&mut self, mut slot: Slot)
        requires old(self).hinv(), 0 <= slot.idx < old(self).rests().len(), old(self).heads()[slot.idx as int] is None
        ensures final(self).hinv(), final(self).n() == old(self).n(),
            old(self).rests()[slot.idx as int].len() == 0 ==> final(self).heads() == old(self).heads() && final(self).rests() == old(self).rests(),
            old(self).rests()[slot.idx as int].len() > 0 ==>
                final(self).heads() == old(self).heads().update(slot.idx as int, Some(old(self).rests()[slot.idx as int][0]))
                && final(self).rests() == old(self).rests().update(slot.idx as int, old(self).rests()[slot.idx as int].drop_first()),
    { unimplemented!() }
    //@ASSUME StreamHeap::peek_is_duplicate: contract verified on the real body in unit heap
    //@CONTRACT-OF heap :: impl StreamHeap :: fn peek_is_duplicate
    #[verifier::external_body]
        fn peek_is_duplicate(&self, key: &[u8]) -> (r: bool)
        requires self.hinv(), self.heads_ge(key@)
        ensures r ==> self.min_is(key@),
            !r ==> self.no_heads() || exists|k: Seq<u8>| k != key@ && #[trigger] self.min_is(k)
    { unimplemented!() }
    //@ASSUME StreamHeap::pop_if_equal: contract verified on the real body in unit heap
    //@CONTRACT-OF heap :: impl StreamHeap :: fn pop_if_equal
    #[verifier::external_body]
        fn pop_if_equal(&mut self, key: &[u8]) -> (r: Option<Slot>)
        requires old(self).hinv(), old(self).heads_ge(key@)
        ensures final(self).hinv(), final(self).rests() == old(self).rests(),
            match r {
                None => final(self).heads() == old(self).heads() && (old(self).no_heads() || exists|k: Seq<u8>| k != key@ && #[trigger] old(self).min_is(k)),
                Some(s) => 0 <= s.idx < old(self).heads().len() && old(self).heads()[s.idx as int] == Some(s.item())
                    && s.input@ == key@
                    && final(self).heads() == old(self).heads().update(s.idx as int, None)
                    && old(self).heads_ge(s.input@),
            }
    { unimplemented!() }
    //@ASSUME StreamHeap::pop_if_le: contract verified on the real body in unit heap
    //@CONTRACT-OF heap :: impl StreamHeap :: fn pop_if_le
    #[verifier::external_body]
        fn pop_if_le(&mut self, key: &[u8]) -> (r: Option<Slot>)
        requires old(self).hinv()
        ensures final(self).hinv(), final(self).rests() == old(self).rests(),
            match r {
                None => final(self).heads() == old(self).heads() && (old(self).no_heads() || exists|k: Seq<u8>| !lex_le(k, key@) && #[trigger] old(self).min_is(k)),
                Some(s) => 0 <= s.idx < old(self).heads().len() && old(self).heads()[s.idx as int] == Some(s.item())
                    && lex_le(s.input@, key@)
                    && final(self).heads() == old(self).heads().update(s.idx as int, None)
                    && old(self).heads_ge(s.input@),
            }
    { unimplemented!() }
    //@ASSUME StreamHeap::new: contract verified on the real body in unit heap
    //@CONTRACT-OF heap :: impl StreamHeap :: fn new
    #[verifier::external_body]
    fn new(streams: Vec<BoxedStream<'f>>) -> (u: StreamHeap<'f>)
        ensures u.hinv(), u.rests().len() == streams@.len(), u.heads().len() == streams@.len(), u.n() == streams@.len(), u.primed_upto(u.n()),
            // every stream has handed out at most its first item, which now sits in the heap
            forall|i: int| 0 <= i < streams@.len() ==> #[trigger] u.rests()[i] == (if streams@[i].rest().len() > 0 { streams@[i].rest().drop_first() } else { streams@[i].rest() })
                && u.heads()[i] == (if streams@[i].rest().len() > 0 { Some(streams@[i].rest()[0]) } else { None }),
    { unimplemented!() }
}
