// what get_key presupposes of the graph (shared by units getkey and compose)
/// value of `key` read from node `a` (relative), forward definition
pub open spec fn lookup_from(g: GR, a: nat, key: Seq<u8>) -> Option<int>
    decreases key.len()
{
    let n = node_at(g, a);
    if key.len() == 0 {
        if n.is_final { Some(n.fo as int) } else { None }
    } else if exists|i: int| 0 <= i < n.trans.len() && n.trans[i].0 == key[0] {
        let i = choose|i: int| 0 <= i < n.trans.len() && n.trans[i].0 == key[0];
        match lookup_from(g, n.trans[i].2, key.drop_first()) { None => None, Some(v) => Some(n.trans[i].1 + v) }
    } else { None }
}
pub open spec fn has_val(g: GR, a: nat, v: int) -> bool { exists|k: Seq<u8>| lookup_from(g, a, k) == Some(v) }

/// structural shape the builder gives a map with strictly increasing values
pub open spec fn canon_node(g: GR, a: nat, root: nat) -> bool {
    let n = node_at(g, a);
    &&& (forall|i: int, j: int| 0 <= i < j < n.trans.len() ==> n.trans[i].0 != n.trans[j].0)
    &&& (forall|i: int, j: int| 0 <= i < j < n.trans.len() ==> n.trans[i].1 < n.trans[j].1)
    &&& (forall|i: int, j: int, v: int| 0 <= i < j < n.trans.len() && #[trigger] has_val(g, n.trans[i].2, v) ==> n.trans[i].1 + v < (#[trigger] n.trans[j]).1)
    &&& (a != root && n.is_final ==> n.fo == 0)
}
/// the shape holds at `a` and at everything reachable from it (get_key only ever looks at nodes reachable from the root)
pub open spec fn canon_from(g: GR, root: nat, a: nat) -> bool
    decreases a, 1int, 0int
    when wf_graph(g)
{
    canon_node(g, a, root) && canon_tr(g, root, a, 0)
}
pub open spec fn canon_tr(g: GR, root: nat, a: nat, i: int) -> bool
    decreases a, 0int, node_at(g, a).trans.len() - i
    when wf_graph(g) && i >= 0
{
    let n = node_at(g, a);
    if i >= n.trans.len() { true } else { canon_from(g, root, n.trans[i].2) && canon_tr(g, root, a, i + 1) }
}
pub open spec fn canon(g: GR, root: nat) -> bool { canon_from(g, root, root) }
