//@ASSUME std: `impl Write for Vec<u8>` appends every byte offered and never fails (the sink of every in-memory build): sink = contents, always well formed, flushed and infallible
impl<A: core::alloc::Allocator> WriteSpecImpl for Vec<u8, A> {
    open spec fn sink(&self) -> Seq<u8> { self@ }
    open spec fn wf(&self) -> bool { true }
    open spec fn anchor(&self) -> nat { 0 }
    open spec fn flushed(&self) -> bool { true }
    open spec fn infallible(&self) -> bool { true }
}
//@ASSUME std: `impl AsRef<[T]> for Vec<T>` returns the vector's contents
impl<T, A: core::alloc::Allocator> AsRefSpecImpl<[T]> for Vec<T, A> {
    open spec fn asref_view(&self) -> &[T] { choose|s: &[T]| s@ == self@ }
}
//@ASSUME there is a slice with the contents of any vector (Vec::as_slice)
#[verifier::external_body]
pub proof fn axiom_vec_asref<T, A: core::alloc::Allocator>(v: Vec<T, A>)
    ensures AsRefSpec::<[T]>::asref_view(&v)@ == v@,
{ }
