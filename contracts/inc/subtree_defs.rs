// the reader-side graph well-formedness and depth-first listing (shared with unit compose)
pub open spec fn wf_graph(g: GR) -> bool {
    &&& g_closed(g)
    &&& forall|a: nat| (#[trigger] node_at(g, a)).trans.len() <= 256
    &&& forall|a: nat, i: int| 0 <= i < node_at(g, a).trans.len() ==> (#[trigger] node_at(g, a).trans[i]).2 < a
    &&& forall|a: nat, i: int, j: int| 0 <= i < j < node_at(g, a).trans.len() ==> (#[trigger] node_at(g, a).trans[i]).0 < (#[trigger] node_at(g, a).trans[j]).0
}

// ---------------- DFS listing ----------------
/// everything below node `a`, reached with key prefix `p` and accumulated output `acc`, in DFS order
pub open spec fn subtree(g: GR, a: nat, p: Seq<u8>, acc: int) -> Seq<Entry>
    decreases a, 1int, 0int
    when wf_graph(g)
{
    let n = node_at(g, a);
    (if n.is_final { seq![(p, acc + n.fo)] } else { Seq::<Entry>::empty() }) + trans_from(g, a, 0, p, acc)
}
/// the part of that listing that goes through transitions i, i+1, … of `a`
pub open spec fn trans_from(g: GR, a: nat, i: int, p: Seq<u8>, acc: int) -> Seq<Entry>
    decreases a, 0int, node_at(g, a).trans.len() - i
    when wf_graph(g) && i >= 0
{
    let n = node_at(g, a);
    if i >= n.trans.len() { Seq::<Entry>::empty() }
    else { subtree(g, n.trans[i].2, p.push(n.trans[i].0), acc + n.trans[i].1) + trans_from(g, a, i + 1, p, acc) }
}

