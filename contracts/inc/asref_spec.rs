//@ASSUME AsRef stability: the trait specification gives every AsRef<T> implementor a ghost view that as_ref() returns on every call (Vec, slice, Cow, memory map are all instances)
#[verifier::external_trait_specification]
#[verifier::external_trait_extension(AsRefSpec via AsRefSpecImpl)]
pub trait ExAsRef<T: core::marker::PointeeSized>: core::marker::PointeeSized {
    type ExternalTraitSpecificationFor: core::convert::AsRef<T>;
    spec fn asref_view(&self) -> &T;
    fn as_ref(&self) -> (r: &T)
        ensures r == self.asref_view();
}
