/// a decoded node in the graph vocabulary
pub open spec fn nv_bnode(n: NV) -> BNode {
    BNode { is_final: n.is_final, fo: n.fo as int, trans: Seq::new(n.trans.len(), |i: int| BT { inp: n.trans[i].0, out: n.trans[i].1 as int, addr: n.trans[i].2 }) }
}
