//@ASSUME std: core::cmp::min returns the smaller argument (stated through vstd's PartialOrdSpec; for integers that is <=)
pub assume_specification<T: Ord + core::marker::Destruct> [core::cmp::min::<T>] (a: T, b: T) -> (r: T)
    ensures T::obeys_partial_cmp_spec() ==> r == (if a.partial_cmp_spec(&b) == Some(core::cmp::Ordering::Greater) { b } else { a });
