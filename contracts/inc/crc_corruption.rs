// bit-level facts: try to get them from the SMT solver's bit-vector theory directly
proof fn lemma_step1_inj(a: u32, b: u32)
    ensures bit_step1(a) == bit_step1(b) ==> a == b
{
    assert(bit_step1(a) == bit_step1(b) ==> a == b) by (bit_vector);
}
proof fn lemma_step_inj_state(c1: u32, c2: u32, b: u8)
    ensures bit_step(c1, b) == bit_step(c2, b) ==> c1 == c2
{
    let x1 = c1 ^ (b as u32); let x2 = c2 ^ (b as u32);
    let s = |x: u32| bit_step1(x);
    lemma_step1_inj(bit_step1(bit_step1(bit_step1(bit_step1(bit_step1(bit_step1(bit_step1(x1))))))), bit_step1(bit_step1(bit_step1(bit_step1(bit_step1(bit_step1(bit_step1(x2))))))));
    lemma_step1_inj(bit_step1(bit_step1(bit_step1(bit_step1(bit_step1(bit_step1(x1)))))), bit_step1(bit_step1(bit_step1(bit_step1(bit_step1(bit_step1(x2)))))));
    lemma_step1_inj(bit_step1(bit_step1(bit_step1(bit_step1(bit_step1(x1))))), bit_step1(bit_step1(bit_step1(bit_step1(bit_step1(x2))))));
    lemma_step1_inj(bit_step1(bit_step1(bit_step1(bit_step1(x1)))), bit_step1(bit_step1(bit_step1(bit_step1(x2)))));
    lemma_step1_inj(bit_step1(bit_step1(bit_step1(x1))), bit_step1(bit_step1(bit_step1(x2))));
    lemma_step1_inj(bit_step1(bit_step1(x1)), bit_step1(bit_step1(x2)));
    lemma_step1_inj(bit_step1(x1), bit_step1(x2));
    lemma_step1_inj(x1, x2);
    assert(x1 == x2 ==> c1 == c2) by (bit_vector) requires x1 == c1 ^ (b as u32), x2 == c2 ^ (b as u32);
}
proof fn lemma_step_inj_byte(c: u32, b1: u8, b2: u8)
    ensures bit_step(c, b1) == bit_step(c, b2) ==> b1 == b2
{
    let x1 = c ^ (b1 as u32); let x2 = c ^ (b2 as u32);
    lemma_step1_inj(bit_step1(bit_step1(bit_step1(bit_step1(bit_step1(bit_step1(bit_step1(x1))))))), bit_step1(bit_step1(bit_step1(bit_step1(bit_step1(bit_step1(bit_step1(x2))))))));
    lemma_step1_inj(bit_step1(bit_step1(bit_step1(bit_step1(bit_step1(bit_step1(x1)))))), bit_step1(bit_step1(bit_step1(bit_step1(bit_step1(bit_step1(x2)))))));
    lemma_step1_inj(bit_step1(bit_step1(bit_step1(bit_step1(bit_step1(x1))))), bit_step1(bit_step1(bit_step1(bit_step1(bit_step1(x2))))));
    lemma_step1_inj(bit_step1(bit_step1(bit_step1(bit_step1(x1)))), bit_step1(bit_step1(bit_step1(bit_step1(x2)))));
    lemma_step1_inj(bit_step1(bit_step1(bit_step1(x1))), bit_step1(bit_step1(bit_step1(x2))));
    lemma_step1_inj(bit_step1(bit_step1(x1)), bit_step1(bit_step1(x2)));
    lemma_step1_inj(bit_step1(x1), bit_step1(x2));
    lemma_step1_inj(x1, x2);
    assert(x1 == x2 ==> b1 == b2) by (bit_vector) requires x1 == c ^ (b1 as u32), x2 == c ^ (b2 as u32);
}

proof fn lemma_fold_inj_state(c1: u32, c2: u32, t: Seq<u8>)
    requires c1 != c2
    ensures crc_fold(c1, t) != crc_fold(c2, t)
    decreases t.len()
{
    if t.len() > 0 {
        lemma_step_inj_state(c1, c2, t[0]);
        lemma_fold_inj_state(bit_step(c1, t[0]), bit_step(c2, t[0]), t.drop_first());
    }
}

pub proof fn lemma_single_byte_changes_crc(c: u32, s: Seq<u8>, s2: Seq<u8>, p: int)
    requires s.len() == s2.len(), 0 <= p < s.len(), s[p] != s2[p],
        forall|i: int| 0 <= i < s.len() && i != p ==> s[i] == s2[i],
    ensures crc_fold(c, s) != crc_fold(c, s2)
    decreases s.len()
{
    if p == 0 {
        lemma_step_inj_byte(c, s[0], s2[0]);
        assert(s.drop_first() =~= s2.drop_first());
        lemma_fold_inj_state(bit_step(c, s[0]), bit_step(c, s2[0]), s.drop_first());
    } else {
        lemma_single_byte_changes_crc(bit_step(c, s[0]), s.drop_first(), s2.drop_first(), p - 1);
    }
}

proof fn lemma_mask_inj(a: u32, b: u32)
    ensures mask(a) == mask(b) ==> a == b
{
    assert(rot15(a) == rot15(b) ==> a == b) by (bit_vector);
    let x = rot15(a) as int; let y = rot15(b) as int;
    assert((x + 0xA282EAD8int) % 0x1_0000_0000int == (y + 0xA282EAD8int) % 0x1_0000_0000int ==> x == y) by (nonlinear_arith)
        requires 0 <= x < 0x1_0000_0000int, 0 <= y < 0x1_0000_0000int;
}

/// file = body ++ le(mask(crc(body))); altering one byte of the file is detected by the verify() predicate
pub proof fn lemma_corruption_detected(file: Seq<u8>, file2: Seq<u8>, p: int)
    requires
        file.len() >= 4, file2.len() == file.len(), 0 <= p < file.len(), file[p] != file2[p],
        forall|i: int| 0 <= i < file.len() && i != p ==> file[i] == file2[i],
        le_u32(file.subrange(file.len() - 4, file.len() as int)) == masked_crc(file.subrange(0, file.len() - 4)),
    ensures
        le_u32(file2.subrange(file2.len() - 4, file2.len() as int)) != masked_crc(file2.subrange(0, file2.len() - 4)),
{
    let n = file.len() as int;
    let body = file.subrange(0, n - 4); let body2 = file2.subrange(0, n - 4);
    let tail = file.subrange(n - 4, n); let tail2 = file2.subrange(n - 4, n);
    if p < n - 4 {
        assert(tail =~= tail2);
        lemma_single_byte_changes_crc(!0u32, body, body2, p);
        let a = crc_fold(!0u32, body); let b = crc_fold(!0u32, body2);
        assert(!a != !b) by (bit_vector) requires a != b;
        lemma_mask_inj(!a, !b);
    } else {
        assert(body =~= body2);
        let q = p - (n - 4);
        assert(tail[q] != tail2[q]);
        assert(forall|i: int| 0 <= i < 4 && i != q ==> tail[i] == tail2[i]);
        let (t0, t1, t2, t3) = (tail[0], tail[1], tail[2], tail[3]);
        let (u0, u1, u2, u3) = (tail2[0], tail2[1], tail2[2], tail2[3]);
        assert(((t0 as u32) | (t1 as u32) << 8 | (t2 as u32) << 16 | (t3 as u32) << 24) == ((u0 as u32) | (u1 as u32) << 8 | (u2 as u32) << 16 | (u3 as u32) << 24)
            ==> t0 == u0 && t1 == u1 && t2 == u2 && t3 == u3) by (bit_vector);
    }
}
