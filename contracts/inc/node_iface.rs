// Reader-side interface to the decoder (unit decode): the types are opaque here, every contract below is, token for
// token, the one unit decode verifies on the real body (//@CONTRACT-OF). The spec functions they mention (nwf, view,
// a, searchable, dec_view, plausible) are uninterpreted here: the reader proofs hold for every interpretation that
// satisfies these contracts, in particular for the one unit decode defines.
//@INCLUDE inc/nv.rs
pub uninterp spec fn dec_view(s: Seq<u8>, a: int, version: u64) -> NV;
pub uninterp spec fn plausible(s: Seq<u8>, a: int, version: u64) -> bool;
pub uninterp spec fn searchable_at(s: Seq<u8>, a: int, version: u64) -> bool;
pub uninterp spec fn nwf(node: &Node<'_>) -> bool;
//@ASSUME Node is opaque here: its representation and accessors are the subject of unit decode
#[verifier::external_body]
#[derive(Clone, Copy)]
pub struct Node<'f> { data: &'f [u8] }
impl<'f> Node<'f> {
    pub uninterp spec fn view(&self) -> NV;
    pub uninterp spec fn a(&self) -> nat;
    pub uninterp spec fn searchable(&self) -> bool;
    //@ASSUME Node::transition: contract verified on the real body in unit decode
    //@CONTRACT-OF decode :: impl Node :: fn transition
    #[verifier::external_body]
    pub fn transition(&self, i: usize) -> (t: Transition)
        requires nwf(self), i < self@.trans.len(),
        ensures (t.inp, t.out.0, t.addr as nat) == self@.trans[i as int],
    { unimplemented!() }
    //@ASSUME Node::transition_addr: contract verified on the real body in unit decode
    //@CONTRACT-OF decode :: impl Node :: fn transition_addr
    #[verifier::external_body]
    pub fn transition_addr(&self, i: usize) -> (a: CompiledAddr)
        requires nwf(self), i < self@.trans.len(),
        ensures a as nat == self@.trans[i as int].2,
    { unimplemented!() }
    //@ASSUME Node::find_input: contract verified on the real body in unit decode
    //@CONTRACT-OF decode :: impl Node :: fn find_input
    #[verifier::external_body]
    pub fn find_input(&self, b: u8) -> (r: Option<usize>)
        requires nwf(self), self.searchable(),
        ensures match r {
            Some(i) => i < self@.trans.len() && self@.trans[i as int].0 == b,
            None => forall|i: int| 0 <= i < self@.trans.len() ==> (#[trigger] self@.trans[i]).0 != b,
        },
    { unimplemented!() }
    //@ASSUME Node::final_output: contract verified on the real body in unit decode
    //@CONTRACT-OF decode :: impl Node :: fn final_output
    #[verifier::external_body]
    pub fn final_output(&self) -> (r: Output)
        requires nwf(self),
        ensures r.0 == self@.fo,
    { unimplemented!() }
    //@ASSUME Node::is_final: contract verified on the real body in unit decode
    //@CONTRACT-OF decode :: impl Node :: fn is_final
    #[verifier::external_body]
    pub fn is_final(&self) -> (r: bool)
        requires nwf(self),
        ensures r == self@.is_final,
    { unimplemented!() }
    //@ASSUME Node::len: contract verified on the real body in unit decode
    //@CONTRACT-OF decode :: impl Node :: fn len
    #[verifier::external_body]
    pub fn len(&self) -> (r: usize)
        requires nwf(self),
        ensures r == self@.trans.len(),
    { unimplemented!() }
    //@ASSUME Node::is_empty: contract verified on the real body in unit decode
    //@CONTRACT-OF decode :: impl Node :: fn is_empty
    #[verifier::external_body]
    pub fn is_empty(&self) -> (r: bool)
        requires nwf(self),
        ensures r == (self@.trans.len() == 0),
    { unimplemented!() }
    //@ASSUME Node::addr: contract verified on the real body in unit decode
    //@CONTRACT-OF decode :: impl Node :: fn addr
    #[verifier::external_body]
    pub fn addr(&self) -> (r: CompiledAddr)
        ensures r == self.a(),
    { unimplemented!() }
}
//@SRC src/raw/mod.rs :: struct Meta
pub struct Meta {
    pub version: u64,
    pub root_addr: CompiledAddr,
    pub ty: FstType,
    pub len: usize,
    pub checksum: Option<u32>,
}
//@SRC src/raw/mod.rs :: struct FstRef
pub struct FstRef<'f> {
    pub meta: &'f Meta,
    pub data: &'f [u8],
}
impl<'f> FstRef<'f> {
    //@ASSUME FstRef::root_addr: contract verified on the real body in unit decode
    //@CONTRACT-OF decode :: impl FstRef :: fn root_addr
    #[verifier::external_body]
    fn root_addr(&self) -> (r: CompiledAddr)
        ensures r == self.meta.root_addr,
    { unimplemented!() }
    //@ASSUME FstRef::root: contract verified on the real body in unit decode
    //@CONTRACT-OF decode :: impl FstRef :: fn root
    #[verifier::external_body]
        fn root(&self) -> (n: Node<'f>)
        requires plausible(self.data@, self.meta.root_addr as int, self.meta.version),
        ensures nwf(&n), n@ == dec_view(self.data@, self.meta.root_addr as int, self.meta.version), n.a() == self.meta.root_addr,
            searchable_at(self.data@, self.meta.root_addr as int, self.meta.version) ==> n.searchable(),
    { unimplemented!() }
    //@ASSUME FstRef::node: contract verified on the real body in unit decode
    //@CONTRACT-OF decode :: impl FstRef :: fn node
    #[verifier::external_body]
        fn node(&self, addr: CompiledAddr) -> (n: Node<'f>)
        requires plausible(self.data@, addr as int, self.meta.version),
        ensures nwf(&n), n@ == dec_view(self.data@, addr as int, self.meta.version), n.a() == addr,
            searchable_at(self.data@, addr as int, self.meta.version) ==> n.searchable(),
    { unimplemented!() }
    //@ASSUME FstRef::empty_final_output: contract verified on the real body in unit decode
    //@CONTRACT-OF decode :: impl FstRef :: fn empty_final_output
    #[verifier::external_body]
    fn empty_final_output(&self) -> (r: Option<Output>)
        requires plausible(self.data@, self.meta.root_addr as int, self.meta.version),
        ensures ({ let n = dec_view(self.data@, self.meta.root_addr as int, self.meta.version);
            (r is Some) == n.is_final && (r is Some ==> r->Some_0.0 == n.fo) }),
    { unimplemented!() }
}

//@INCLUDE inc/gr_defs.rs
/// a Node value obtained for address `a` of graph `g`
pub open spec fn node_of(n: &Node<'_>, g: GR, a: nat) -> bool {
    nwf(n) && n@ == node_at(g, a) && n.a() == a && n.searchable()
}
impl<'f> FstRef<'f> {
    pub open spec fn g(&self) -> GR { GR { data: self.data@, version: self.meta.version, dom: fdom(self.data@, self.meta.version) } }
}
