//@ASSUME std: `impl AsRef<[T]> for [T]` returns the slice itself
impl<T> AsRefSpecImpl<[T]> for [T] { open spec fn asref_view(&self) -> &[T] { self } }
//@ASSUME std: `impl AsRef<U> for &T` forwards to T's implementation
impl<T: ?Sized + AsRef<U>, U: ?Sized> AsRefSpecImpl<U> for &T { open spec fn asref_view(&self) -> &U { (*self).asref_view() } }
