// little-endian integers as the format description states them
pub open spec fn le_u64(s: Seq<u8>) -> u64 recommends s.len() >= 8,
{
    (s[0] as u64) | (s[1] as u64) << 8 | (s[2] as u64) << 16 | (s[3] as u64) << 24
    | (s[4] as u64) << 32 | (s[5] as u64) << 40 | (s[6] as u64) << 48 | (s[7] as u64) << 56
}
