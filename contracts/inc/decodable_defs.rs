/// address `a` of `s` can be decoded without leaving the file, and an index lookup at it is sound
pub open spec fn decodable_at(s: Seq<u8>, a: int, version: u64) -> bool { plausible(s, a, version) && searchable_at(s, a, version) }
/// every node of the graph of `s` can be decoded in place
pub open spec fn all_decodable(s: Seq<u8>, version: u64) -> bool {
    forall|a: nat| graph(s, version).dom().contains(a) ==> #[trigger] decodable_at(s, a as int, version)
}
