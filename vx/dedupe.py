#!/usr/bin/env python3
"""development aid: remove from a template the top-level items (spec fns, structs, impls by name) that an include
file defines, and put the //@INCLUDE line at the place of the first one removed.
usage: dedupe.py template inc/file.rs [inc/file2.rs ...]"""
import sys, os, re
sys.path.insert(0, os.path.dirname(os.path.abspath(__file__)))
from rtok import *

def names_of(path):
    toks, _ = tokenize(open(path).read())
    out = []
    for it in parse_items(toks, 0, len(toks), True):
        out.append((it.kind, it.name))
    return out

tmpl = sys.argv[1]
for inc in sys.argv[2:]:
    want = set(names_of(os.path.join(os.path.dirname(tmpl), inc)))
    text = open(tmpl).read()
    toks, tail = tokenize(text)
    vi = [k for k, t in enumerate(toks) if t.text == 'verus'][0]
    lo = vi + 3
    hi = match_close(toks, vi + 2)
    items = parse_items(toks, lo, hi, True)
    rem = [it for it in items if (it.kind, it.name) in want]
    if not rem:
        print(inc, 'nothing to remove')
        continue
    out = []
    pos = 0
    first = True
    for it in rem:
        out.append(render(toks[pos:it.start]))
        lead = toks[it.start].trivia
        # keep blank lines, drop doc comments that belonged to the removed item
        lead = re.sub(r'[ \t]*///[^\n]*\n', '', lead)
        out.append(lead.rstrip(' \t'))
        if first:
            out.append('//@INCLUDE %s\n' % inc)
            first = False
        pos = it.end
    out.append(render(toks[pos:]) + tail)
    open(tmpl, 'w').write(''.join(out))
    print(inc, 'removed', len(rem), [n for _, n in [(it.kind, it.name) for it in rem]][:50])
