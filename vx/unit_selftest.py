#!/usr/bin/env python3
"""unit_selftest.py [filter]: for every mutants/harmless/*.patch apply it to a scratch copy of /repo and verify each Verus
unit that reads a touched file once. A harmless edit must leave every unit 'ok' (or at worst undecided); a failed obligation
in a changed function would be a false alarm of every property that owns it."""
import os, re, sys, shutil, tempfile, subprocess, concurrent.futures as cf
HERE = os.path.dirname(os.path.abspath(__file__)); VERIF = os.path.dirname(HERE)
sys.path.insert(0, HERE)
import props as P
from verus_run import verify_unit
import driver
unit_files = {}
for u in P.UNITS:
    t = open(os.path.join(VERIF, 'contracts', u + '.rs.tmpl')).read()
    unit_files[u] = set(re.findall(r'//@SRC\s+(\S+)\s+::', t))
flt = sys.argv[1] if len(sys.argv) > 1 else ''
hd = os.path.join(VERIF, 'mutants', 'harmless')
def one(name):
    pf = os.path.join(hd, name + '.patch')
    files = set(re.findall(r'^\+\+\+ b/(\S+)', open(pf).read(), re.M))
    d = tempfile.mkdtemp(prefix='fstverif-uself-', dir=os.environ.get('TMPDIR') or '/var/tmp')
    out = []
    try:
        subprocess.run('git -C /repo archive HEAD | tar x -C %s' % d, shell=True, check=True)
        p = subprocess.run('patch -p1 -s < %s' % pf, shell=True, cwd=d, capture_output=True, text=True)
        if p.returncode != 0:
            return name, [('patch', 'does not apply', p.stdout[-200:])]
        for u in sorted(P.UNITS):
            if unit_files[u] & files:
                w = tempfile.mkdtemp(prefix='w-', dir=d)
                r = verify_unit(u, d, w, P.UNITS[u]['rlimit'], P.UNITS[u]['timeout'], False, 4)
                merged = [i['path'] for i in r.unit.items if i['status'] != 'identical'] if r.unit else []
                st = r.status
                if st == 'violation' and all(driver.fn_proof_perturbed(r.unit, f) or not driver.fn_was_changed(r.unit, f) for f, _ in r.failed):
                    st = 'undecided(policy)'
                # functions whose contract is also a complete CBMC harness (kani/k_bits.rs) are decided there by ./check; this unit-level
                # test only notes it
                import kani_run, re as _re
                if st == 'violation' and all(kani_run.FALLBACK.get(_re.sub(r'^.*?([A-Za-z_0-9]+::[A-Za-z_0-9]+|[a-z_0-9]+)$', r'\1', f)) for f, _ in r.failed):
                    st = 'second-back-end(kani decides)'
                out.append((u, st, (r.reason or '')[:160] + ' failed=' + str([f for f, _ in r.failed][:4]) if r.status != 'ok' else 'merged=%s' % merged[:3]))
    finally:
        shutil.rmtree(d, ignore_errors=True)
    return name, out
names = sorted(f[:-6] for f in os.listdir(hd) if f.endswith('.patch') and flt in f)
bad = 0
with cf.ThreadPoolExecutor(max_workers=4) as ex:
    for name, out in ex.map(one, names):
        for u, st, info in out:
            tag = 'ok' if st == 'ok' else ('FALSE-ALARM' if st == 'violation' else st)
            if st == 'violation': bad += 1
            print('%-40s %-10s %-12s %s' % (name, u, tag, info)); sys.stdout.flush()
sys.exit(1 if bad else 0)
