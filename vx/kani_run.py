"""Kani route: harness fragments are appended to a scratch copy of /repo's working tree (so a harness is a child
module of the module under test and sees private items); the R11 scan contracts run in a standalone crate that
receives the hoisted expression text of the current source."""
import os
import re
import shutil
import subprocess
import sys
import time

HERE = os.path.dirname(os.path.abspath(__file__))
VERIF = os.path.dirname(HERE)
sys.path.insert(0, HERE)
from extract import Unit, generate, LostAnchor

# harness -> (fragment file, kind, tiers, note, bound)
H = {
    'read_le': ('k_bytes.rs', 'crate', ('quick', 'thorough'), 'read_u64_le / read_u32_le == little-endian spec', 'complete (loop-free)'),
    'unpack_le': ('k_bytes.rs', 'crate', ('quick', 'thorough'), 'unpack_uint(s,k) == le_value(s[..k])', 'complete (8-iteration loop, unwinding assertions on)'),
    'to_le_bytes_spec': ('k_bytes.rs', 'crate', ('quick', 'thorough'), 'u32/u64::to_le_bytes == le_bytes', 'complete (loop-free)'),
    'pack_roundtrip': ('k_bytes.rs', 'crate', ('thorough',), 'R10 cross-check: pack_uint_in / unpack_uint / pack_size on the unmodified generic code', 'complete (8-iteration loops)'),
    'crc_byte_step_is_bitwise': ('k_tables.rs', 'crate', ('quick', 'thorough'), 'TABLE byte step == 8 bitwise CRC-32C steps', 'complete (all c, b)'),
    'masked_spec': ('k_tables.rs', 'crate', ('quick', 'thorough', 'fallback'), 'CheckSummer::masked == rotr15 + 0xA282EAD8', 'complete'),
    'table16_row0': ('k_tables.rs', 'crate', ('quick', 'thorough'), 'TABLE[0]==0, TABLE16[0]==TABLE', 'complete (256 concrete entries)'),
    'table_xor_linear': ('k_tables.rs', 'crate', ('thorough',), 'TABLE is XOR-linear in its index', 'complete (two symbolic bytes)'),
    'common_tables': ('k_common.rs', 'crate', ('quick', 'thorough'), 'COMMON_INPUTS / _INV: index <= 63, inverse pair', 'complete (256 concrete entries)'),
    'common_tables_pinned': ('k_common.rs', 'crate', ('quick', 'thorough'), 'COMMON_INPUTS equals the table of format versions 1-3 (pinned literal) and common_idx / common_input store a rank r < 63 as the field value r + 1 (0 = explicit byte)', 'complete (256 concrete entries)'),
    'slot_order': ('k_slot.rs', 'crate', ('quick', 'thorough'), 'impl Ord / PartialOrd for Slot == reverse of (key, then output)', 'BOUNDED: keys of up to 3 bytes (all bytes, all outputs)'),
    'find_input_scan': ('k_scan.rs.tmpl', 'scan', ('quick', 'thorough'), 'R11: linear scan of find_input', 'window'),
    'seek_position': ('k_scan.rs.tmpl', 'scan', ('quick', 'thorough'), 'R11: position(|t| t.inp > b).unwrap_or(len)', 'window'),
    'getkey_take_while_last': ('k_scan.rs.tmpl', 'scan', ('quick', 'thorough'), 'R11: take_while(out <= value).last()', 'window'),
    'registry_find': ('k_scan.rs.tmpl', 'scan', ('quick', 'thorough'), 'R11: first hit of the cache row (position over the find closure)', 'window'),
}
# second back end for the small bit-level / arithmetic functions of units encode and decode (see kani/k_bits.rs): run in the thorough tier, and on
# demand when Verus fails one of these functions (tier 'fallback')
BITS = {
    'bits_pack_sizes': 'PackSizes::{new, decode, encode, transition_pack_size, output_pack_size, set_transition_pack_size, set_output_pack_size} against the nibble layout',
    'bits_state_any': 'StateAnyTrans::{new, set_final_state, is_final_state, set_state_ntrans, state_ntrans, ntrans_len} against the state-byte layout',
    'bits_state_any_sizes': 'StateAnyTrans::{trans_index_size, total_trans_size} against the size formulas',
    'bits_state_one': 'StateOneTransNext / StateOneTrans::{new, set_common_input, common_input, input_len} against the state-byte layout',
    'bits_state_new': 'State::new: class = top two bits, address 0 = empty final',
    'bits_pack_size': 'bytes::pack_size == least byte width; pack_delta_size == width of the delta',
    'bits_output': 'Output::{new, zero, value, is_zero, prefix, cat, sub}: min, +, - on the wrapped u64',
}
for _h, _d in BITS.items():
    H[_h] = ('k_bits.rs', 'crate', ('quick', 'thorough', 'fallback'), _d, 'complete (loop-free, full input domain)')
# Verus function (unit, name as in the ledger) -> harness that states the same contract
FALLBACK = {}
for _f in ('new', 'decode', 'encode', 'transition_pack_size', 'output_pack_size', 'set_transition_pack_size', 'set_output_pack_size'):
    FALLBACK['PackSizes::' + _f] = 'bits_pack_sizes'
for _f in ('new', 'set_final_state', 'is_final_state', 'set_state_ntrans', 'state_ntrans', 'ntrans_len'):
    FALLBACK['StateAnyTrans::' + _f] = 'bits_state_any'
for _f in ('trans_index_size', 'total_trans_size'):
    FALLBACK['StateAnyTrans::' + _f] = 'bits_state_any_sizes'
for _s in ('StateOneTransNext', 'StateOneTrans'):
    for _f in ('new', 'set_common_input', 'common_input', 'input_len'):
        FALLBACK[_s + '::' + _f] = 'bits_state_one'
FALLBACK['State::new'] = 'bits_state_new'
for _f in ('new', 'zero', 'value', 'is_zero', 'prefix', 'cat', 'sub'):
    FALLBACK['Output::' + _f] = 'bits_output'
FALLBACK['CheckSummer::masked'] = 'masked_spec'
FALLBACK['pack_size'] = 'bits_pack_size'
FALLBACK['pack_delta_size'] = 'bits_pack_size'
for j in range(15):
    H['table16_succ_%02d' % j] = ('k_tables.rs', 'crate', ('quick', 'thorough'), 'TABLE16[%d+1][i] is one zero-byte step of TABLE16[%d][i]' % (j, j), 'complete (256 concrete entries)')

# scans whose expression Verus verifies where it stands (R22 + a std specification of slice::Iter::position): the Kani run is no longer what the
# property rests on
IN_PLACE = {'find_input_scan': 'unit decode, StateAnyTrans::find_input', 'registry_find': 'unit registry, RegistryCache::entry'}
# scans over the crate's own Transitions iterator: the closure is verified where it stands, the adapter chain (provided trait methods, which
# Verus cannot specify at a user type) is a std-level assumption stated for any predicate
CLOSURE_IN_PLACE = {'seek_position': 'unit stream, StreamWithState::seek_min', 'getkey_take_while_last': 'unit getkey, FstRef::get_key_into'}
# which hoisted helper comes from which Verus unit
HOIST_UNITS = {'hoist_find_input': 'decode', 'vx_hoist_seek_position': 'stream', 'vx_hoist_getkey': 'getkey', 'hoist_find': 'registry'}
SCAN_HOISTS = {'find_input_scan': 'hoist_find_input', 'seek_position': 'vx_hoist_seek_position', 'getkey_take_while_last': 'vx_hoist_getkey',
               'registry_find': 'hoist_find'}
WINDOW = {'quick': {'find_input_scan': 34, 'seek_position': 34, 'getkey_take_while_last': 8, 'registry_find': 4},
          'thorough': {'find_input_scan': 256, 'seek_position': 256, 'getkey_take_while_last': 40, 'registry_find': 16}}


def sh(cmd, cwd, timeout):
    env = dict(os.environ)
    env['CARGO_NET_OFFLINE'] = 'true'
    t0 = time.time()
    try:
        p = subprocess.run(cmd, cwd=cwd, env=env, capture_output=True, text=True, timeout=timeout)
        return p.returncode, p.stdout + p.stderr, time.time() - t0
    except subprocess.TimeoutExpired as e:
        out = (e.stdout or b'').decode(errors='replace') if isinstance(e.stdout, bytes) else (e.stdout or '')
        return 124, out + '\nTIMEOUT', time.time() - t0


def parse_kani(out):
    """per harness: dict(status, failed_checks, covers_ok, time)"""
    res = {}
    cur_by_thread = {}
    cur = None
    last_thread = None
    lines = out.split('\n')
    for k, ln in enumerate(lines):
        m = re.match(r'^(?:Thread (\d+): )?Checking harness (\S+?)\.\.\.', ln)
        if m:
            name = m.group(2).split('::')[-1]
            cur_by_thread[m.group(1)] = name
            cur = name
            res.setdefault(name, {'status': None, 'failed': [], 'covers': None, 'time': None})
            continue
        m = re.match(r'^Thread (\d+):\s*$', ln)
        if m:
            last_thread = m.group(1)
            cur = cur_by_thread.get(last_thread, cur)
            continue
        if cur is None:
            continue
        if ln.startswith('CBMC failed') or 'CBMC appears to have run out of memory' in ln or 'CBMC timed out' in ln or ln.startswith('CBMC crashed'):
            res[cur]['tool_failure'] = ln.strip()
        if ln.startswith('VERIFICATION:- '):
            res[cur]['status'] = ln.split('- ')[1].strip()
        m = re.match(r'^ \*\* (\d+) of (\d+) cover properties satisfied', ln)
        if m:
            res[cur]['covers'] = (int(m.group(1)), int(m.group(2)))
        m = re.match(r'^Failed Checks: (.*)$', ln)
        if m:
            res[cur]['failed'].append(m.group(1))
        m = re.match(r'^Verification Time: ([0-9.]+)s', ln)
        if m:
            res[cur]['time'] = float(m.group(1))
    return res


def playback(d, h, timeout=600):
    """Kani's counterexample for harness h, replayed natively on the code in d: the concrete input vectors Kani prints
    and the outcome of running the harness on them as an ordinary test (cargo kani playback)."""
    cmd = ['cargo', 'kani', '--output-format=terse', '-Z', 'concrete-playback', '--concrete-playback=inplace', '--harness', h]
    rc, out, dt = sh(cmd, d, timeout)
    m = re.search(r'kani_concrete_playback_%s_\d+' % re.escape(h), out)
    if not m:
        return None
    test = m.group(0)
    vals = None
    for root, _, files in os.walk(os.path.join(d, 'src')):
        for f in files:
            if f.endswith('.rs'):
                txt = open(os.path.join(root, f)).read()
                k = txt.find('fn %s()' % test)
                if k >= 0:
                    e = txt.find('kani::concrete_playback_run', k)
                    body = txt[k:e]
                    vals = [(c.strip(), [int(x) for x in v.split(',') if x.strip()]) for c, v in re.findall(r'//([^\n]*)\n\s*vec!\[([^\]]*)\]', body)]
    rc2, out2, dt2 = sh(['cargo', 'kani', 'playback', '-Z', 'concrete-playback', '--', test], d, timeout)
    pm = re.search(r"panicked at ([^\n]*)\n([^\n]*)", out2)
    failed = bool(re.search(r'test result: FAILED', out2)) or rc2 == 101
    return {'harness': h, 'playback_test': test, 'inputs': vals,
            'native_replay': 'failed' if failed else 'passed',
            'native_panic': (pm.group(1) + ' :: ' + pm.group(2).strip()) if pm else None,
            'cmds': [' '.join(cmd), 'cargo kani playback -Z concrete-playback -- ' + test]}


def hoist_texts(repo, work, needed):
    out = {}
    for helper in needed:
        u = HOIST_UNITS[helper]
        unit = Unit(u, os.path.join(VERIF, 'contracts', u + '.rs.tmpl'), repo)
        generate(unit)
        txt = [h['text'] for h in unit.hoists if h['helper'] == helper]
        if not txt:
            raise LostAnchor('hoisted expression for %s not present in the source' % helper)
        out[helper] = ' '.join(txt)
    return out


def run_groups(harnesses, tier, repo, work):
    r = {'info': {}, 'obligations': 0, 'discharged': 0, 'cmds': [], 'assumptions': [], 'violations': [], 'undecided': [], 'samples': []}
    sel = [h for h in harnesses if tier in H[h][2]]
    crate_h = [h for h in sel if H[h][1] == 'crate']
    scan_h = [h for h in sel if H[h][1] == 'scan']
    r['obligations'] = len(sel)
    timeout = 900 if tier == 'quick' else 3600
    results = {}
    if crate_h:
        d = os.path.join(work, 'kani-crate')
        subprocess.run(['rsync', '-a', '--exclude', 'target', '--exclude', '.git', repo.rstrip('/') + '/', d + '/'], check=True)
        frags = sorted(set(H[h][0] for h in crate_h))
        for f in frags:
            text = open(os.path.join(VERIF, 'kani', f)).read()
            tgt = re.search(r'//@APPEND (\S+)', text).group(1)
            with open(os.path.join(d, tgt), 'a') as fh:
                fh.write('\n' + text)
        os.makedirs(os.path.join(d, '.cargo'), exist_ok=True)
        open(os.path.join(d, '.cargo', 'config.toml'), 'w').write('[net]\noffline = true\n')
        cmd = ['cargo', 'kani', '--output-format=terse', '-j', '12']
        for h in crate_h:
            cmd += ['--harness', h]
        rc, out, dt = sh(cmd, d, timeout)
        r['cmds'].append('(cd <scratch copy of %s + kani/%s appended> && CARGO_NET_OFFLINE=true %s)' % (repo, ','.join(frags), ' '.join(cmd)))
        res = parse_kani(out)
        if rc == 124:
            r['undecided'].append('kani: timeout after %ds' % timeout)
        elif not res:
            r['undecided'].append('kani: no harness result (compile error?): %s' % out[-600:])
        results.update(res)
        r['info']['crate_wall_s'] = round(dt, 1)
    if scan_h:
        try:
            texts = hoist_texts(repo, work, sorted(set(SCAN_HOISTS.values())))
        except LostAnchor as e:
            r['undecided'].append('kani K-scan: %s' % e)
            texts = None
        if texts is not None:
            d = os.path.join(work, 'kani-scan')
            os.makedirs(os.path.join(d, 'src'), exist_ok=True)
            w = WINDOW[tier]
            src = open(os.path.join(VERIF, 'kani', 'k_scan.rs.tmpl')).read()
            for hn, wv in w.items():
                src = src.replace('/*@WINDOW:%s*/' % hn, str(wv)).replace('/*@UNWIND:%s*/' % hn, str(wv + 2))
            for helper, txt in texts.items():
                src = src.replace('/*@HOIST:%s*/' % helper, txt)
            open(os.path.join(d, 'src', 'lib.rs'), 'w').write(src)
            open(os.path.join(d, 'Cargo.toml'), 'w').write('[package]\nname = "vx_scan"\nversion = "0.0.0"\nedition = "2018"\n\n[lib]\npath = "src/lib.rs"\n\n[workspace]\n')
            os.makedirs(os.path.join(d, '.cargo'), exist_ok=True)
            open(os.path.join(d, '.cargo', 'config.toml'), 'w').write('[net]\noffline = true\n')
            cmd = ['cargo', 'kani', '--output-format=terse', '-j', '4']
            for h in scan_h:
                cmd += ['--harness', h]
            rc, out, dt = sh(cmd, d, timeout)
            r['cmds'].append('(cd <standalone crate from kani/k_scan.rs.tmpl + hoisted text, WINDOW=%r> && %s)' % (w, ' '.join(cmd)))
            res = parse_kani(out)
            if rc == 124:
                r['undecided'].append('kani K-scan: timeout after %ds' % timeout)
            elif not res:
                r['undecided'].append('kani K-scan: no harness result (the hoisted text no longer compiles in the harness?): %s' % out[-600:])
            results.update(res)
            r['info']['scan_wall_s'] = round(dt, 1)
            r['info']['scan_window'] = w
            r['info']['hoisted_text'] = texts
            for hn in scan_h:
                wv = w[hn]
                if hn in IN_PLACE:
                    r['assumptions'].append('K-scan %s: fan-out window %d - a second, bounded run of the same text that supplies a replayable counterexample; the obligation itself is '
                                            'discharged for every length by Verus on the expression in place (%s)' % (hn, wv, IN_PLACE[hn]))
                elif hn in CLOSURE_IN_PLACE:
                    r['assumptions'].append('K-scan %s: fan-out window %d (%s) - runs the real expression (closure + std adapters + the crate\'s Transitions iterator) and supplies a replayable '
                                            'counterexample; in Verus the closure is verified where it stands (%s) and the adapter chain is an assumption about std stated for any predicate, '
                                            'so the property does not rest on this window' % (hn, wv, 'every fan-out a node can have' if wv >= 256 else 'bounded', CLOSURE_IN_PLACE[hn]))
                else:
                    r['assumptions'].append('K-scan %s: fan-out window %d (%s)' % (hn, wv, 'every fan-out a node can have: complete' if wv >= 256 else 'BOUNDED stand-in, not counted as proved beyond this fan-out'))
    for h in sel:
        x = results.get(h)
        if x is None or x['status'] is None:
            r['undecided'].append('kani harness %s: no verdict' % h)
            continue
        r['samples'].append({'kani_harness': h, 'contract': H[h][3], 'bound': H[h][4], 'status': x['status'], 'time_s': x['time']})
        if H[h][1] == 'crate':
            r['assumptions'].append('kani %s (%s): %s' % (h, H[h][3], H[h][4]))
        if x['status'] == 'SUCCESSFUL':
            if x['covers'] is not None and x['covers'][0] != x['covers'][1]:
                r['undecided'].append('kani harness %s: a cover property is unsatisfiable (vacuous precondition?)' % h)
            else:
                r['discharged'] += 1
        else:
            if x.get('tool_failure') or not x['failed']:
                # CBMC itself failed (memory, crash, timeout), or reported FAILED without naming a failed check: a tool limit
                r['undecided'].append('kani harness %s: no verdict from CBMC (%s)' % (h, x.get('tool_failure') or 'FAILED without a failed check'))
            elif any('unwinding assertion' in f for f in x['failed']):
                r['undecided'].append('kani harness %s: unwinding assertion failed (bound too small)' % h)
            else:
                cex = None
                try:
                    cex = playback(os.path.join(work, 'kani-crate' if H[h][1] == 'crate' else 'kani-scan'), h)
                except Exception as e:  # pragma: no cover
                    cex = None
                if cex is not None and cex.get('native_replay') != 'failed':
                    cex['note'] = 'the counterexample did not fail when replayed natively; the failed obligation stands'
                texts = ['kani harness %s (%s): %s' % (h, H[h][3], '; '.join(x['failed']) or 'FAILED')]
                if cex and cex.get('native_replay') == 'failed':
                    texts.append('counterexample replayed natively on the real code: %s; inputs %r' % (cex.get('native_panic'), cex.get('inputs')))
                r['violations'].append((h, 'kani', texts, ['kani/%s' % H[h][0]],
                                        {'cex': cex if (cex and cex.get('native_replay') == 'failed') else None, 'playback': cex}))
    r['info']['harnesses'] = {h: results.get(h) for h in sel}
    return r
