#!/usr/bin/env python3
"""check selftest (development aid, not in MANIFEST): applies every mutants/harmless/*.patch to a scratch copy of
/repo and runs the listed properties' quick checks against it - each must exit 0 (2 is reported, 1 is a false
alarm); then every seeded/<id>/patch.diff against its own property - exit 1 expected (the table in DESIGN.md)."""
import json, os, subprocess, sys, shutil, tempfile, concurrent.futures as cf
VERIF = os.path.dirname(os.path.dirname(os.path.abspath(__file__)))


def sh(cmd, cwd=None, env=None):
    e = dict(os.environ)
    if env:
        e.update(env)
    p = subprocess.run(cmd, shell=True, cwd=cwd, env=e, capture_output=True, text=True)
    return p.returncode, p.stdout + p.stderr


def scratch_with(patch):
    d = tempfile.mkdtemp(prefix='fstverif-self-', dir=os.environ.get('TMPDIR') or '/var/tmp')
    sh('git -C /repo archive HEAD | tar x -C %s' % d)
    rc, o = sh('git apply --unsafe-paths --directory=%s %s' % (d, patch)) if False else sh('patch -p1 -s < %s' % patch, cwd=d)
    if rc != 0:
        shutil.rmtree(d, ignore_errors=True)
        raise RuntimeError('patch does not apply: %s %s' % (patch, o[-200:]))
    return d


def run_one(name, patch, props):
    d = scratch_with(patch)
    ev = tempfile.mkdtemp(prefix='fstverif-ev-', dir=os.environ.get('TMPDIR') or '/var/tmp')
    out = {}
    try:
        for p in props:
            rc, o = sh('./check %s --tier quick --repo %s' % (p, d), cwd=VERIF, env={'VERIF_EVIDENCE_DIR': ev})
            lines = [l for l in o.split('\n') if l.startswith(('VIOLATION', 'UNDECIDED'))]
            out[p] = (rc, lines[:2])
    finally:
        shutil.rmtree(d, ignore_errors=True)
        shutil.rmtree(ev, ignore_errors=True)
    return name, out


def main():
    which = sys.argv[1] if len(sys.argv) > 1 else 'harmless'
    only = sys.argv[2] if len(sys.argv) > 2 else ''
    jobs = []
    if which in ('harmless', 'all'):
        hd = os.path.join(VERIF, 'mutants', 'harmless')
        for f in sorted(os.listdir(hd)):
            if f.endswith('.patch') and only in f:
                props = open(os.path.join(hd, f[:-6] + '.props')).read().split()
                jobs.append((f[:-6], os.path.join(hd, f), props, 0))
    if which in ('seeded', 'all'):
        sd = os.path.join(VERIF, 'seeded')
        for n in sorted(os.listdir(sd)):
            if only not in n:
                continue
            meta = json.load(open(os.path.join(sd, n, 'meta.json')))
            jobs.append((n, os.path.join(sd, n, 'patch.diff'), [meta['property']], 1))
    bad = 0
    with cf.ThreadPoolExecutor(max_workers=3) as ex:
        futs = {ex.submit(run_one, j[0], j[1], j[2]): j for j in jobs}
        for f in cf.as_completed(futs):
            j = futs[f]
            name, out = f.result()
            for p, (rc, lines) in out.items():
                verdict = 'as expected' if rc == j[3] else ('FALSE ALARM' if (j[3] == 0 and rc == 1) else ('undecided' if rc == 2 else 'MISSED'))
                if verdict in ('FALSE ALARM',):
                    bad += 1
                print('%-34s %s rc=%d %s %s' % (name, p, rc, verdict, ' | '.join(lines)[:200]))
                sys.stdout.flush()
    return 1 if bad else 0


if __name__ == '__main__':
    sys.exit(main())
