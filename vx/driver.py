#!/usr/bin/env python3
"""check <ID> [--tier quick|thorough] [--replay FILE] [--repo DIR]
   check units            list units and properties
   check ledger <unit>    (development) record the obligation ledger of a unit from the current tree

Exit codes: 0 property held on everything explored; 1 with a VIOLATION line; 2 undecided / framework broken
(never on the unchanged tree)."""
import argparse
import concurrent.futures as cf
import hashlib
import json
import os
import re
import shutil
import sys
import tempfile
import time

HERE = os.path.dirname(os.path.abspath(__file__))
VERIF = os.path.dirname(HERE)
sys.path.insert(0, HERE)

import verus_run
import scan as scanmod
from verus_run import verify_unit, load_ledger
import props as P

try:
    import kani_run
except Exception:  # pragma: no cover
    kani_run = None


def block_lines(text):
    ls = set()
    for m in re.finditer(r'^\s*(\d+) \|', text, re.M):
        ls.add(int(m.group(1)))
    for m in re.finditer(r'--> [^:\n]+:(\d+):', text):
        ls.add(int(m.group(1)))
    return ls


def items_for_block(unit, text):
    ls = block_lines(text)
    out = []
    for it in unit.items:
        a, b = it['lines']
        if any(a <= l <= b for l in ls):
            out.append('%s :: %s (source line %d)' % (it['file'], it['path'], it['src_line']))
    return out


def blocks_for_fn(unit, f, all_texts):
    """the error blocks that mention a line inside a source item whose path ends in f's function name (and
    mentions f's type name when f has one); all blocks when none can be attributed"""
    segs = f.split('::')
    fname = segs[-1]
    tname = segs[-2] if len(segs) > 1 and '%' not in segs[-2] else None
    out = []
    for t in all_texts:
        ls = block_lines(t)
        for it in unit.items:
            a, b = it['lines']
            if it['kind'] == 'fn' and it['path'].endswith('fn ' + fname) and any(a <= l <= b for l in ls):
                if tname is None or re.search(r'\b%s\b' % re.escape(tname), it['path']):
                    out.append(t)
                    break
    return out or list(all_texts)


def fn_was_changed(unit, f):
    """True when some source item that the Verus function name f can denote differs from the template"""
    # a changed constant or type definition is visible to every function of the unit
    if any(it['kind'] != 'fn' and it['status'] != 'identical' for it in unit.items):
        return True
    segs = f.split('::')
    fname = segs[-1]
    tname = segs[-2] if len(segs) > 1 and '%' not in segs[-2] else None
    cands = [it for it in unit.items if it['kind'] == 'fn' and it['path'].split(' :: ')[-1] == 'fn ' + fname]
    if tname is not None:
        c2 = [it for it in cands if re.search(r'\b%s\b' % re.escape(tname), it['path'])]
        if c2:
            cands = c2
    return any(it['status'] != 'identical' for it in cands)


def fn_proof_perturbed(unit, f, safety=False):
    """True when every changed source item the Verus function f can denote was (a) restructured (statements added, removed or
    moved) in a way that dropped a proof statement or left one next to changed text, or (b) merely rearranged (its bag of
    operators, literals, field / method / function names is the template's): a proof that fails then says nothing about the
    code (harmless edits - an if/else flipped, a temporary inlined, two independent setter calls swapped, the operands of `|`
    flipped - failed exactly so)."""
    if any(it['kind'] != 'fn' and it['status'] != 'identical' for it in unit.items):
        return False
    segs = f.split('::')
    fname = segs[-1]
    tname = segs[-2] if len(segs) > 1 and '%' not in segs[-2] else None
    cands = [it for it in unit.items if it['kind'] == 'fn' and it['path'].split(' :: ')[-1] == 'fn ' + fname]
    if tname is not None:
        c2 = [it for it in cands if re.search(r'\b%s\b' % re.escape(tname), it['path'])]
        if c2:
            cands = c2
    ch = [it for it in cands if it['status'] != 'identical']
    # ... except when the edit only took executable text away and no proof statement went with it: the annotations then still
    # stand on the statements they were written for, and what fails is what the remaining code no longer does
    # ... and likewise when whole statements were put in, taken out or moved across an early exit and nothing else was touched
    def intact(it):
        return (it.get('deleted_only') or it.get('whole_stmt')) and not it.get('dropped')
    return bool(ch) and all((it.get('restructured') and it.get('perturbed') and not intact(it))
                            or it.get('dropped') or (it.get('rearranged') and not safety) for it in ch)


def only_foreign_clauses(unit, texts_, pid):
    """True when every failure reported for the function is a failed postcondition whose clause carries an `//@ONLY Cxx ..`
    mark (the clause serves those properties only) and pid is not among them. The function's other postconditions were
    proved; what failed is another property's business."""
    if not texts_ or len(texts_) >= 5:      # --multiple-errors 5: the list may be cut short
        return False
    lines = unit.text.split('\n')
    for tx in texts_:
        first = tx.strip().split('\n')[0]
        if 'postcondition not satisfied' not in first:
            return False
        m = re.search(r'-->\s*[^:\s]+:(\d+):\d+', tx)
        if not m:
            return False
        k = int(m.group(1)) - 2          # 0-based index of the line above the clause
        # the mark stands on the line directly above the clause it speaks for (and for no clause further down)
        tags = None
        ln = lines[k].strip() if k >= 0 else ''
        if ln.startswith('//@ONLY'):
            tags = ln[len('//@ONLY'):].split()
        if not tags or pid in tags:
            return False
    return True


def sha(path):
    try:
        return hashlib.sha256(open(path, 'rb').read()).hexdigest()
    except Exception:
        return None


def main():
    ap = argparse.ArgumentParser()
    ap.add_argument('prop')
    ap.add_argument('arg', nargs='?')
    ap.add_argument('--tier', default=os.environ.get('VERIF_TIER', 'quick'))
    ap.add_argument('--replay')
    ap.add_argument('--repo', default='/repo')
    ap.add_argument('--keep', action='store_true')
    a = ap.parse_args()
    seed = int(os.environ.get('VERIF_SEED', '0') or 0)

    if a.prop == 'units':
        for pid, pc in sorted(P.PROPS.items()):
            print(pid, [u for u in pc['units']], pc.get('kani', []))
        return 0
    if a.prop == 'ledger':
        return record_ledger(a.arg, a.repo)

    pid = a.prop
    if pid not in P.PROPS:
        print('unknown property', pid)
        return 2
    pc = P.PROPS[pid]
    tier = a.tier if a.tier in ('quick', 'thorough') else 'quick'
    t0 = time.time()
    base = os.environ.get('TMPDIR') or '/var/tmp'
    os.makedirs(base, exist_ok=True)
    work = tempfile.mkdtemp(prefix='fstverif-%s-' % pid, dir=base)
    try:
        return run_check(pid, pc, tier, seed, a.repo, work, t0, a.replay)
    finally:
        if not a.keep:
            shutil.rmtree(work, ignore_errors=True)


def record_ledger(unit, repo):
    work = tempfile.mkdtemp(prefix='fstverif-ledger-', dir=os.environ.get('TMPDIR') or '/var/tmp')
    try:
        uc = P.UNITS[unit]
        r = verify_unit(unit, repo, work, rlimit=uc.get('rlimit', 50), timeout=uc.get('timeout', 180))
        if r.status != 'ok':
            print('unit not ok:', r.status, r.reason)
            for f, tx in r.failed:
                print(' failed', f)
                for t in tx:
                    print(t)
            return 2
        names = sorted(r.functions)
        with open(os.path.join(VERIF, 'contracts', unit + '.ledger'), 'w') as f:
            f.write('# obligation ledger of unit %s: every function Verus has to report as verified\n' % unit)
            for n in names:
                f.write(n + '\n')
        print('%s: %d functions, %.1fs, items: %d (merged %d)' % (
            unit, len(names), r.wall, len(r.unit.items), sum(1 for i in r.unit.items if i['status'] != 'identical')))
        return 0
    finally:
        shutil.rmtree(work, ignore_errors=True)


def run_replay(pid, pc, tier, repo, work, replay):
    """--replay FILE: discharge again, against the current tree, the one obligation a replay file names. Exit 1 with
    the VIOLATION line if it still fails, 0 if the verifier accepts it now, 2 if it cannot be decided."""
    rec = json.load(open(replay))
    ob = rec.get('obligation', '')
    if rec.get('back_end') == 'kani':
        if kani_run is None:
            print('UNDECIDED kani route unavailable')
            return 2
        h = ob.split('::')[-1]
        r = kani_run.run_groups([h], 'thorough' if tier == 'thorough' else 'quick', repo, work)
        vv = [v for v in r['violations'] if v[0] == h]
        if vv:
            cex = vv[0][4].get('cex') if isinstance(vv[0][4], dict) else None
            print('VIOLATION property=%s replay=%s%s' % (pid, replay, '' if cex else ' no-failing-input-found'))
            print('  failed obligation (replayed): kani::%s' % h)
            for t_ in vv[0][2][:3]:
                print('  | ' + t_[:1500])
            return 1
        if r['undecided']:
            for m in r['undecided']:
                print('UNDECIDED %s' % m)
            return 2
        print('OK replay: kani harness %s is discharged on the current tree' % h)
        return 0
    u, _, f = ob.partition('::')
    if u not in P.UNITS:
        print('UNDECIDED replay file names an unknown unit: %s' % ob)
        return 2
    uc = P.UNITS[u]
    r = verify_unit(u, repo, work, uc.get('rlimit', 50), uc.get('timeout', 120) * (5 if tier == 'thorough' else 1), False, 8)
    if r.status == 'ok':
        print('OK replay: %s is discharged on the current tree (%d functions of unit %s verified)' % (ob, len(r.functions), u))
        return 0
    if r.status == 'violation':
        failed = [x for x, _ in r.failed]
        if f in failed:
            all_texts = []
            for _, tx in r.failed:
                all_texts.extend(tx)
            print('VIOLATION property=%s replay=%s no-failing-input-found' % (pid, replay))
            print('  failed obligation (replayed): %s' % ob)
            for t in blocks_for_fn(r.unit, f, all_texts)[:3]:
                print('  | ' + t.strip().replace('\n', '\n  | ')[:1500])
            return 1
        print('UNDECIDED replay: %s verifies, but other obligations of unit %s fail: %s' % (ob, u, failed[:5]))
        return 2
    print('UNDECIDED replay: unit %s: %s: %s' % (u, r.status, r.reason))
    return 2


def run_check(pid, pc, tier, seed, repo, work, t0, replay):
    if replay:
        return run_replay(pid, pc, tier, repo, work, replay)
    units = list(pc['units'])
    results = {}
    canaries = {}
    jobs = []
    nthreads = max(1, 16 // max(1, 2 * len(units)))
    with cf.ThreadPoolExecutor(max_workers=16) as ex:
        futs = {}
        for u in units:
            uc = P.UNITS[u]
            rl = uc.get('rlimit', 50)
            to = uc.get('timeout', 120) * (5 if tier == 'thorough' else 1)
            futs[ex.submit(verify_unit, u, repo, work, rl, to, False, nthreads)] = ('v', u)
        # canaries: every unit in thorough, a rotating one in quick
        can_units = units if tier == 'thorough' else ([units[seed % len(units)]] if units else [])
        for u in can_units:
            uc = P.UNITS[u]
            futs[ex.submit(verify_unit, u, repo, work, uc.get('rlimit', 50), uc.get('timeout', 120), True, nthreads)] = ('c', u)
        kres = None
        if pc.get('kani') and kani_run is not None:
            kf = ex.submit(kani_run.run_groups, pc['kani'], tier, repo, work)
            futs[kf] = ('k', None)
        for f in cf.as_completed(futs):
            kind, u = futs[f]
            if kind == 'v':
                results[u] = f.result()
            elif kind == 'c':
                canaries[u] = f.result()
            else:
                kres = f.result()

    violations = []   # (obligation, unit, texts, items)
    undecided = []
    fb_cache = {}
    second_backend = []
    own = pc.get('own', {})
    obligations = 0
    discharged = 0
    fn_samples = []
    assumptions = []
    trusted = list(P.TRUSTED_BASE)
    cmds = []
    smt_ms = 0
    src_hashes = {}
    under_contract = []
    rule_hits = {}
    for u in units:
        r = results[u]
        cmds.append('(cd <workdir> && ' + r.cmd + ')  # unit %s generated from contracts/%s.rs.tmpl + %s' % (u, u, repo))
        smt_ms += r.smt_ms
        exp = load_ledger(u) or []
        obligations += len(exp)
        if r.unit is not None:
            for asm in r.unit.assumes:
                assumptions.append('[%s] %s' % (u, asm))
            src_hashes.update(r.unit.src_files)
            for it in r.unit.items:
                if it['kind'] == 'fn':
                    under_contract.append('%s :: %s [%s]' % (it['file'], it['path'], it['status']))
            for k, v in r.unit.hits.items():
                rule_hits[k] = rule_hits.get(k, 0) + v
        if r.status == 'ok':
            missing = [f for f in exp if f not in r.functions or not r.functions[f]['success']]
            if missing or not exp:
                undecided.append('unit %s: ledger entries missing from the verifier output: %s' % (u, missing[:5]))
            discharged += len([f for f in exp if f in r.functions and r.functions[f]['success']])
            for f in exp[:3]:
                fn_samples.append({'unit': u, 'function': f, 'verus': r.functions.get(f)})
        elif r.status == 'violation':
            discharged += len([f for f in exp if f in r.functions and r.functions[f]['success']])
            pat = own.get(u)
            all_texts = []
            for f, tx in r.failed:
                all_texts.extend(tx)
            for f, tx in r.failed:
                texts_ = blocks_for_fn(r.unit, f, all_texts)
                if not fn_was_changed(r.unit, f):
                    # modular verification: the obligation of a function depends on its own body and on the
                    # contracts (which live in the template). Its body is token-identical to the template's, so
                    # this failure cannot be caused by the tree under test: an unstable proof, never an alarm.
                    undecided.append('unit %s: %s failed although its source text is unchanged (unstable proof; '
                                     'not attributable to /repo)' % (u, f))
                    continue
                if f not in exp and f != '(unnamed)':
                    undecided.append('unit %s: %s failed but is not an obligation of the ledger' % (u, f))
                    continue
                # a failed *safety* obligation of executable code (overflow, index, division, shift) does not lean on the arrangement
                # the way a postcondition proof does: it is reported even for a rearranged function (unless proof statements were lost)
                if only_foreign_clauses(r.unit, texts_, pid):
                    undecided.append('unit %s: %s: only postconditions that serve other properties (//@ONLY marks) failed; the clauses this '
                                     'property rests on were proved' % (u, f))
                    continue
                safety = any(re.search(r'possible arithmetic underflow/overflow|possible division by zero|index out of bounds|possible bit shift|possible truncation', x) for x in texts_)
                if fn_proof_perturbed(r.unit, f, safety):
                    undecided.append('unit %s: %s failed, but the edit only rearranged the function (same operators, literals, calls and '
                                     'fields; statements, operands or branches reordered, temporaries introduced or inlined, locals renamed), '
                                     'or restructured it and took proof annotations with it: proofs are written for one arrangement, so '
                                     'the failed proof is no evidence about the code' % (u, f))
                    continue
                if pat is None or re.search(pat, f):
                    # second back end: a small bit-level / arithmetic function whose contract is also stated as a complete CBMC
                    # harness (kani/k_bits.rs). Verus fails such a function for want of a bit-vector / non-linear hint as soon
                    # as it is written differently; CBMC decides the same contract bit-precisely on the text as it stands.
                    hb = kani_run.FALLBACK.get(re.sub(r'^.*?([A-Za-z_0-9]+::[A-Za-z_0-9]+|[a-z_0-9]+)$', r'\1', f)) if kani_run is not None else None
                    if hb is not None:
                        if hb not in fb_cache:
                            fbw = os.path.join(work, 'fallback-' + hb)
                            os.makedirs(fbw, exist_ok=True)
                            fb_cache[hb] = kani_run.run_groups([hb], 'fallback', repo, fbw)
                        fbr = fb_cache[hb]
                        st = (fbr['info'].get('harnesses', {}).get(hb) or {}).get('status')
                        if st == 'SUCCESSFUL' and not fbr['undecided'] and not fbr['violations']:
                            discharged += 1
                            cmds.extend(c for c in fbr['cmds'] if c not in cmds)
                            second_backend.append('%s::%s: Verus could not discharge the contract on the text as it stands (%s); the same contract, stated as harness %s '
                                                  '(kani/k_bits.rs, loop-free over the full input domain), is discharged by CBMC' % (u, f, (texts_[0].strip().split('\n')[0] if texts_ else 'failed'), hb))
                            fn_samples.append({'unit': u, 'function': f, 'verus': 'failed', 'kani_harness': hb, 'status': 'SUCCESSFUL', 'discharged_by': 'CBMC'})
                            continue
                        for v in fbr['violations']:
                            if not any(w[0] == v[0] for w in violations) and not (kres and any(w[0] == v[0] for w in kres['violations'])):
                                violations.append(v)
                    items = []
                    for t in texts_:
                        items.extend(items_for_block(r.unit, t))
                    violations.append((f, u, texts_, sorted(set(items)), r))
                else:
                    undecided.append('unit %s: obligation %s failed; it is a dependency of %s, not one of its own '
                                     'obligations (see the property that owns it)' % (u, f, pid))
        else:
            undecided.append('unit %s: %s: %s' % (u, r.status, r.reason))
    # canaries must fail in every contracted body
    canary_info = {}
    for u, r in canaries.items():
        bodies = [it for it in r.unit.items if it.get('has_body')] if r.unit else []
        if r.status in ('undecided', 'broken') and not r.functions:
            continue  # the unit could not be run at all: already reported by the main run
        okf = [f for f, d in r.functions.items() if d['success'] and d['mode'] == 'exec']
        # every exec function with a source body must now fail: successful exec fns must be external/hoisted ones
        passed = []
        fail_lines = set()
        for b in verus_run.parse_errors(r.stderr):
            if verus_run.classify_block(b) in ('fail', 'rlimit'):
                fail_lines |= block_lines(b['text'])
        for it in bodies:
            a_, b_ = it['lines']
            if not any(a_ <= l <= b_ for l in fail_lines):
                passed.append(it['path'])
        canary_info[u] = {'bodies': len(bodies), 'canaries_failed_as_required': len(bodies) - len(passed)}
        if passed:
            undecided.append('unit %s: canary assert(false) was NOT refuted in: %s (vacuous precondition?)' % (u, passed[:5]))

    kani_info = None
    if kres is not None:
        kani_info = kres['info']
        obligations += kres['obligations']
        discharged += kres['discharged']
        cmds.extend(kres['cmds'])
        assumptions.extend(kres['assumptions'])
        for v in kres['violations']:
            violations.append(v)
        undecided.extend(kres['undecided'])
        fn_samples.extend(kres['samples'])

    # syntactic scans (checked frame conditions, reported as such)
    scan_info = {}
    for sc in pc.get('scans', []):
        if sc == 'determinism':
            nfiles, hits = scanmod.scan_determinism(repo)
        else:
            nfiles, hits = scanmod.scan_unsafe(repo)
        obligations += nfiles
        scan_info[sc] = {'files': nfiles, 'hits': hits, 'kind': 'syntactic scan, not a proof'}
        if hits:
            discharged += max(0, nfiles - len(set(h.split(':')[0] for h in hits)))
            violations.append(('scan-' + sc, 'scan', ['%s scan: %s' % (sc, h) for h in hits], hits, {'cex': hits}))
        else:
            discharged += nfiles
        cmds.append('vx/scan.py %s over %d files of %s' % (sc, nfiles, repo))

    # known findings
    known = P.load_known_findings()
    reported = []
    rc = 0
    os.makedirs(os.path.join(VERIF, 'evidence', 'replay'), exist_ok=True)
    nviol = 0
    for v in violations:
        f, u, texts_, items, r = v
        kf = P.match_known(known, pid, u, f, texts_)
        if kf is not None:
            print('KNOWN-FINDING: property=%s %s' % (pid, kf['what']))
            continue
        nviol += 1
        oname = re.sub(r'[^A-Za-z0-9_.-]+', '_', '%s-%s-%s' % (pid, u, f))
        rp = os.path.join(VERIF, 'evidence', 'replay', oname + '.json')
        cex = None
        if isinstance(r, dict):
            cex = r.get('cex')
        rec = {'property': pid, 'obligation': '%s::%s' % (u, f), 'back_end': 'kani' if isinstance(r, dict) else 'verus',
               'source_items': items, 'verifier_output': texts_, 'source_sha256': src_hashes,
               'counterexample': cex, 'kani_playback': (r.get('playback') if isinstance(r, dict) else None),
               'how_to_replay': './check %s --replay %s' % (pid, rp)}
        if not isinstance(r, dict) and r.gen_path:
            rec['generated_unit_sha256'] = sha(r.gen_path)
        json.dump(rec, open(rp, 'w'), indent=1)
        tail = '' if cex else ' no-failing-input-found'
        print('VIOLATION property=%s replay=%s%s' % (pid, rp, tail))
        print('  failed obligation: %s::%s' % (u, f))
        for t in texts_[:3]:
            print('  | ' + t.strip().replace('\n', '\n  | ')[:1500])
        rc = 1
    if rc == 0 and undecided:
        for m in undecided:
            print('UNDECIDED %s' % m)
        rc = 2
    elif undecided:
        for m in undecided:
            print('note (undecided part): %s' % m)

    wall = time.time() - t0
    ev = {
        'property_id': pid, 'tier': tier, 'seed': seed, 'level': 'proof',
        'coverage': {
            'obligations': obligations, 'discharged': discharged,
            'checker_cmd': ' ; '.join(cmds) if cmds else 'none',
            'trusted_base': trusted,
            'samples': fn_samples[:12],
            'functions_under_contract': under_contract,
            'units': {u: {'status': results[u].status, 'reason': results[u].reason, 'functions_reported': len(results[u].functions),
                          'wall_s': round(results[u].wall, 2), 'smt_ms': results[u].smt_ms,
                          'ledger': len(load_ledger(u) or [])} for u in units},
            'back_ends': {'verus(z3)': sum(len(load_ledger(u) or []) for u in units),
                          'kani(cbmc)': (kres['obligations'] if kres else 0)},
            'solver_time_ms': smt_ms,
            'rewrite_rule_hits': rule_hits,
            'source_sha256': src_hashes,
            'canary': canary_info,
            'kani': kani_info,
            'scans': scan_info,
            'discharged_by_second_back_end': second_backend,
            'undecided': undecided,
            'explanation': pc.get('explanation', ''),
        },
        'assumptions': sorted(set(assumptions)) + list(pc.get('assumptions', [])),
        'wall_s': round(wall, 2),
        'violations': nviol,
    }
    evdir = os.environ.get('VERIF_EVIDENCE_DIR') or os.path.join(VERIF, 'evidence')
    os.makedirs(evdir, exist_ok=True)
    json.dump(ev, open(os.path.join(evdir, pid + '.json'), 'w'), indent=1)
    if rc == 0:
        print('OK property=%s tier=%s obligations=%d discharged=%d wall=%.1fs' % (pid, tier, obligations, discharged, wall))
    return rc


if __name__ == '__main__':
    sys.exit(main())
