#!/usr/bin/env python3
"""import_harmless.py <dir-with-numbered-subdirs> <prefix>: copy patch.diff files into mutants/harmless/<prefix>_<i>.patch and
write the .props file: every property one of whose units reads a file the patch touches."""
import os, re, sys, shutil
HERE = os.path.dirname(os.path.abspath(__file__)); VERIF = os.path.dirname(HERE)
sys.path.insert(0, HERE)
import props as P
unit_files = {}
for u in P.UNITS:
    t = open(os.path.join(VERIF, 'contracts', u + '.rs.tmpl')).read()
    unit_files[u] = set(re.findall(r'//@SRC\s+(\S+)\s+::', t))
src, prefix = sys.argv[1], sys.argv[2]
for d in sorted(os.listdir(src)):
    pf = os.path.join(src, d, 'patch.diff')
    if not os.path.exists(pf): continue
    files = set(re.findall(r'^\+\+\+ b/(\S+)', open(pf).read(), re.M))
    props = [pid for pid, pc in sorted(P.PROPS.items()) if any(unit_files[u] & files for u in pc['units'])]
    name = '%s_%s' % (prefix, d)
    shutil.copy(pf, os.path.join(VERIF, 'mutants', 'harmless', name + '.patch'))
    open(os.path.join(VERIF, 'mutants', 'harmless', name + '.props'), 'w').write(' '.join(props) + '\n')
    notes = os.path.join(src, d, 'notes.txt')
    if os.path.exists(notes): shutil.copy(notes, os.path.join(VERIF, 'mutants', 'harmless', name + '.txt'))
    print(name, sorted(files), props)
