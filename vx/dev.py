#!/usr/bin/env python3
"""development aid: dev.py <unit> [--rlimit N] [--fn NAME] : generate the unit from /repo, run verus, print errors."""
import os, sys, subprocess, time, argparse
sys.path.insert(0, os.path.dirname(os.path.abspath(__file__)))
from extract import Unit, generate, scan_assumptions, LostAnchor
import props as P
VERIF = os.path.dirname(os.path.dirname(os.path.abspath(__file__)))
ap = argparse.ArgumentParser()
ap.add_argument('unit'); ap.add_argument('--rlimit', type=int); ap.add_argument('--fn'); ap.add_argument('--repo', default='/repo')
ap.add_argument('--timeout', type=int, default=600); ap.add_argument('--canary', action='store_true')
a = ap.parse_args()
u = Unit(a.unit, os.path.join(VERIF, 'contracts', a.unit + '.rs.tmpl'), a.repo)
try:
    generate(u, a.canary)
except LostAnchor as e:
    print('LOST ANCHOR', e); sys.exit(2)
bad = scan_assumptions(u.text)
if bad: print('UNANNOUNCED', bad[:5])
os.makedirs('/var/tmp/vxdev', exist_ok=True)
path = '/var/tmp/vxdev/%s.rs' % a.unit
open(path, 'w').write(u.text)
rl = a.rlimit or P.UNITS[a.unit]['rlimit']
cmd = ['timeout', str(a.timeout), 'verus', path, '--triggers-mode', 'silent', '--rlimit', str(rl), '--multiple-errors', '4', '--time']
if a.fn: cmd += ['--verify-function', a.fn, '--verify-root']
t0 = time.time()
p = subprocess.run(cmd, capture_output=True, text=True, cwd='/var/tmp/vxdev')
out = p.stdout + p.stderr
lines = [l for l in out.split('\n')]
print('\n'.join(lines[-int(os.environ.get('TAIL', '120')):]))
print('rc', p.returncode, '%.1fs' % (time.time() - t0), 'merged items:', [i['path'] for i in u.items if i['status'] != 'identical'][:10])
if os.environ.get('SLOW'):
    import json
    p = subprocess.run(['verus', path, '--triggers-mode', 'silent', '--rlimit', str(rl), '--output-json', '--time-expanded'], capture_output=True, text=True, cwd='/var/tmp/vxdev')
    j = json.loads(p.stdout)
    fs = []
    for m in j['times-ms']['smt']['smt-run-module-times']:
        for f in m['function-breakdown']:
            fs.append((f['time-micros'] // 1000, f['function'], f['success']))
    fs.sort(reverse=True)
    for t, f, ok in fs[:12]: print(t, 'ms', f, ok)
