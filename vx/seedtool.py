#!/usr/bin/env python3
"""seedtool.py confirm <PROP> : confirm the sub-agent's seeded changes in a scratch worktree and store them
under /verif/seeded/<PROP>-<i>/ (patch.diff, demo.rs, notes.txt, meta.json).
   seedtool.py run [<name>...] : apply each stored seed to /repo, run the property's quick check, undo; report."""
import json, os, subprocess, sys, shutil, time

VERIF = os.path.dirname(os.path.dirname(os.path.abspath(__file__)))


def sh(cmd, cwd=None, env=None, timeout=1800):
    e = dict(os.environ)
    if env:
        e.update(env)
    p = subprocess.run(cmd, shell=True, cwd=cwd, env=e, capture_output=True, text=True, timeout=timeout)
    return p.returncode, p.stdout + p.stderr


def confirm(prop, rnd=''):
    src = '/tmp/seed%s-%s/seed_out' % (rnd, prop)
    wt = '/tmp/seedcheck-%s' % prop
    sh('git -C /repo worktree remove --force %s' % wt)
    rc, out = sh('git -C /repo worktree add -q %s HEAD' % wt)
    assert rc == 0, out
    env = {'CARGO_TARGET_DIR': wt + '/target', 'CARGO_NET_OFFLINE': 'true'}
    try:
        for i in sorted(os.listdir(src)):
            d = os.path.join(src, i)
            if not os.path.exists(os.path.join(d, 'patch.diff')):
                continue
            name = '%s-%s%s' % (prop, ('r%s-' % rnd) if rnd else '', i)
            meta = {'property': prop, 'seed': name, 'confirmed_at': time.strftime('%Y-%m-%dT%H:%M:%SZ', time.gmtime())}
            ran = []
            sh('git checkout -- . && rm -f tests/demo_seed.rs', cwd=wt)
            shutil.copy(os.path.join(d, 'demo.rs'), os.path.join(wt, 'tests', 'demo_seed.rs'))
            rc0, o0 = sh('cargo test --offline --test demo_seed', cwd=wt, env=env)
            ran.append('clean tree: cargo test --offline --test demo_seed -> rc %d' % rc0)
            rc, o = sh('git apply %s' % os.path.join(d, 'patch.diff'), cwd=wt)
            if rc != 0:
                print(name, 'PATCH DOES NOT APPLY', o[-300:])
                continue
            rc1, o1 = sh('cargo test --offline --test demo_seed', cwd=wt, env=env)
            ran.append('patched: cargo test --offline --test demo_seed -> rc %d' % rc1)
            os.remove(os.path.join(wt, 'tests', 'demo_seed.rs'))
            rcb, ob = sh('cargo build --offline --features levenshtein', cwd=wt, env=env)
            rc2, o2 = sh('cargo test --workspace --no-fail-fast --offline', cwd=wt, env=env)
            ran.append('patched: cargo test --workspace --no-fail-fast --offline -> rc %d' % rc2)
            ok = rc0 == 0 and rc1 != 0 and rc2 == 0 and rcb == 0
            meta['confirmed'] = ok
            meta['ran'] = ran
            notes = open(os.path.join(d, 'notes.txt')).read() if os.path.exists(os.path.join(d, 'notes.txt')) else ''
            meta['needs_to_manifest'] = notes
            print(name, 'CONFIRMED' if ok else 'NOT CONFIRMED', ran)
            if ok:
                dst = os.path.join(VERIF, 'seeded', name)
                os.makedirs(dst, exist_ok=True)
                for f in ('patch.diff', 'demo.rs', 'notes.txt'):
                    if os.path.exists(os.path.join(d, f)):
                        shutil.copy(os.path.join(d, f), os.path.join(dst, f))
                json.dump(meta, open(os.path.join(dst, 'meta.json'), 'w'), indent=1)
            sh('git checkout -- .', cwd=wt)
    finally:
        sh('git -C /repo worktree remove --force %s' % wt)
        shutil.rmtree(wt, ignore_errors=True)


def run(names):
    base = os.path.join(VERIF, 'seeded')
    if not names:
        names = sorted(os.listdir(base))
    res = {}
    for n in names:
        d = os.path.join(base, n)
        meta = json.load(open(os.path.join(d, 'meta.json')))
        prop = meta['property']
        rc, st = sh('git -C /repo status --porcelain --untracked-files=no')
        assert st.strip() == '', '/repo not clean: ' + st
        rc, o = sh('git -C /repo apply %s' % os.path.join(d, 'patch.diff'))
        if rc != 0:
            print(n, 'patch does not apply', o[-200:])
            continue
        try:
            props = [prop] + [p for p in sys.argv_extra if p != prop] if hasattr(sys, 'argv_extra') else [prop]
            out = {}
            for p in props:
                rc, o = sh('./check %s --tier quick' % p, cwd=VERIF, env={'VERIF_EVIDENCE_DIR': '/var/tmp/vx/seed-evidence'})
                viol = [l for l in o.split('\n') if l.startswith('VIOLATION')]
                und = [l for l in o.split('\n') if l.startswith('UNDECIDED')]
                out[p] = (rc, viol[:3], und[:3])
            res[n] = out
            print(n, json.dumps(out))
        finally:
            sh('git -C /repo checkout -- .')
    # restore evidence of unchanged tree is the caller's job (re-run checks)
    return res


if __name__ == '__main__':
    if sys.argv[1] == 'confirm':
        for p in sys.argv[2:]:
            confirm(p)
    elif sys.argv[1].startswith('confirm') and sys.argv[1][7:].isdigit():
        for p in sys.argv[2:]:
            confirm(p, sys.argv[1][7:])
    elif sys.argv[1] == 'run':
        run(sys.argv[2:])
