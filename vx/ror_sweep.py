#!/usr/bin/env python3
"""ror_sweep.py gen|test|judge : a systematic relational-operator sweep over the library sources.

gen   : enumerate every binary comparison (== != < <= > >=) in the non-test code of src/ (without levenshtein) and write one
        patch per replacement to <out>/mut/<id>.patch
test  : for each patch, build and run the crate's whole test suite in a scratch copy; survivors (everything passes) go to
        <out>/survivors.txt
judge : for each survivor, verify the Verus units that read the touched file (unit level, like unit_selftest) and print the
        verdict; the list is then read by a person: a VIOLATION on an edit that cannot change behaviour is a false alarm, an OK on
        one that can is a miss.
Scratch lives under /var/tmp/ror (removed by `clean`)."""
import os, re, sys, subprocess, shutil, tempfile, concurrent.futures as cf
HERE = os.path.dirname(os.path.abspath(__file__)); VERIF = os.path.dirname(HERE)
OUT = '/var/tmp/ror'
REPL = {'==': ['<=', '>='], '!=': ['<', '>'], '<': ['<=', '!='], '<=': ['<', '=='], '>': ['>=', '!='], '>=': ['>', '==']}
FILES = ['src/bytes.rs', 'src/raw/build.rs', 'src/raw/mod.rs', 'src/raw/node.rs', 'src/raw/ops.rs', 'src/raw/registry.rs',
         'src/raw/counting_writer.rs', 'src/raw/crc32.rs', 'src/automaton/mod.rs', 'src/map.rs', 'src/set.rs']


def sites(text):
    """(line index, column, op) of comparisons in code lines outside #[cfg(test)] and outside comments / doc lines"""
    cut = text.find('#[cfg(test)]')
    body = text if cut < 0 else text[:cut]
    res = []
    for li, line in enumerate(body.split('\n')):
        s = line.strip()
        if s.startswith('//') or s.startswith('#') or 'fn ' in s and s.rstrip().endswith('{') and '(' in s and ' if ' not in s:
            continue
        code = line.split('//')[0]
        for m in re.finditer(r'(?<=[\w\)\]\s])\s(==|!=|<=|>=|<|>)\s(?=[\w\(\&\!\*\-\'\"])', code):
            op = m.group(1)
            # generics / arrows / shifts / match arms
            pre = code[:m.start()]
            if op in ('<', '>') and (re.search(r'(impl|fn|struct|enum|type|where|for)\b[^;{]*$', pre) or '::<' in pre[-6:]):
                continue
            if code[m.end(1):m.end(1) + 1] in ('=', '<', '>') or code[m.start(1) - 1:m.start(1)] in ('<', '>', '=', '-'):
                continue
            res.append((li, m.start(1), op))
    return res


def sites_aor(text):
    """(line, col, old, [replacements]) for binary + / - and for small integer literals (k -> k+1, k-1)"""
    cut = text.find('#[cfg(test)]')
    body = text if cut < 0 else text[:cut]
    res = []
    for li, line in enumerate(body.split('\n')):
        s = line.strip()
        if s.startswith('//') or s.startswith('#') or s.startswith('const ') or s.startswith('static '):
            continue
        code = line.split('//')[0]
        if code.count('"') >= 2:
            continue
        for m in re.finditer(r'(?<=[\w\)\]])\s([+-])\s(?=[\w\(])', code):
            res.append((li, m.start(1), m.group(1), ['-' if m.group(1) == '+' else '+']))
        for m in re.finditer(r'(?<![\w.])(\d{1,3})(?![\w.])', code):
            k = int(m.group(1))
            pre = code[:m.start()]
            if k > 300 or re.search(r'(<<|>>)\s*$', pre) or re.search(r'\[\s*$', pre) and code[m.end():].lstrip().startswith(';'):
                continue
            reps = [str(k + 1)] + ([str(k - 1)] if k > 0 else [])
            res.append((li, m.start(1), m.group(1), reps))
    return res


def sites_sdl(text):
    """single-line simple statements (`...;`, no `let`, no block, no return / break / continue) that can be deleted"""
    cut = text.find('#[cfg(test)]')
    body = text if cut < 0 else text[:cut]
    res = []
    for li, line in enumerate(body.split('\n')):
        s = line.strip()
        if not s.endswith(';') or s.startswith('//') or s.startswith('#') or s.startswith('let ') or s.startswith('use ') or s.startswith('pub ') \
                or s.startswith('const ') or s.startswith('static ') or s.startswith('type ') or s.startswith('return') or s.startswith('break') \
                or s.startswith('continue') or s.startswith('}') or s.startswith('mod ') or s.startswith('fn ') or '{' in s or s.count('(') != s.count(')'):
            continue
        if not line.startswith('        '):
            continue     # not inside a function body
        res.append(li)
    return res


def gen(kind='ror'):
    if kind == 'sdl':
        shutil.rmtree(OUT, ignore_errors=True)
        os.makedirs(OUT + '/mut')
        n = 0
        for f in FILES:
            text = open('/repo/' + f).read()
            lines = text.split('\n')
            for li in sites_sdl(text):
                new = lines[:li] + lines[li + 1:]
                mid = '%s_%d_del' % (f.replace('/', '_').replace('.rs', ''), li + 1)
                d = tempfile.mkdtemp(dir=OUT)
                os.makedirs(os.path.join(d, 'a', os.path.dirname(f)), exist_ok=True)
                os.makedirs(os.path.join(d, 'b', os.path.dirname(f)), exist_ok=True)
                open(os.path.join(d, 'a', f), 'w').write(text)
                open(os.path.join(d, 'b', f), 'w').write('\n'.join(new))
                p = subprocess.run(['diff', '-u', 'a/' + f, 'b/' + f], cwd=d, capture_output=True, text=True)
                open('%s/mut/%s.patch' % (OUT, mid), 'w').write(p.stdout)
                shutil.rmtree(d)
                n += 1
        print(n, 'mutants')
        return
    shutil.rmtree(OUT, ignore_errors=True)
    os.makedirs(OUT + '/mut')
    n = 0
    for f in FILES:
        text = open('/repo/' + f).read()
        lines = text.split('\n')
        if kind == 'ror':
            ss = [(li, col, op, REPL[op]) for li, col, op in sites(text)]
        elif kind == 'lcr':
            ss = []
            cut = text.find('#[cfg(test)]')
            for li, line in enumerate((text if cut < 0 else text[:cut]).split('\n')):
                code = line.split('//')[0]
                if line.strip().startswith('//'):
                    continue
                for m in re.finditer(r'\s(&&|\|\|)\s', code):
                    ss.append((li, m.start(1), m.group(1), ['||' if m.group(1) == '&&' else '&&']))
        else:
            ss = sites_aor(text)
        for li, col, op, reps in ss:
            for k, rep in enumerate(reps):
                new = list(lines)
                new[li] = lines[li][:col] + rep + lines[li][col + len(op):]
                mid = '%s_%d_%d_%d' % (f.replace('/', '_').replace('.rs', ''), li + 1, col, k)
                d = tempfile.mkdtemp(dir=OUT)
                os.makedirs(os.path.join(d, 'a', os.path.dirname(f)), exist_ok=True)
                os.makedirs(os.path.join(d, 'b', os.path.dirname(f)), exist_ok=True)
                open(os.path.join(d, 'a', f), 'w').write(text)
                open(os.path.join(d, 'b', f), 'w').write('\n'.join(new))
                p = subprocess.run(['diff', '-u', 'a/' + f, 'b/' + f], cwd=d, capture_output=True, text=True)
                open('%s/mut/%s.patch' % (OUT, mid), 'w').write(p.stdout)
                shutil.rmtree(d)
                n += 1
    print(n, 'mutants')


def test_one(args):
    wid, ids = args
    d = '%s/w%d' % (OUT, wid)
    shutil.rmtree(d, ignore_errors=True)
    os.makedirs(d)
    subprocess.run('git -C /repo archive HEAD | tar x -C %s' % d, shell=True, check=True)
    env = dict(os.environ, CARGO_TARGET_DIR=d + '/target', CARGO_NET_OFFLINE='true')
    subprocess.run(['cargo', 'test', '--offline', '--no-run'], cwd=d, env=env, capture_output=True)
    out = []
    for mid in ids:
        pf = '%s/mut/%s.patch' % (OUT, mid)
        p = subprocess.run('patch -p1 -s < %s' % pf, shell=True, cwd=d, capture_output=True, text=True)
        if p.returncode != 0:
            out.append((mid, 'nopatch'))
            subprocess.run('git -C /repo archive HEAD | tar x -C %s' % d, shell=True)
            continue
        try:
            r = subprocess.run(['timeout', '600', 'cargo', 'test', '--offline', '--workspace', '--no-fail-fast'], cwd=d, env=env, capture_output=True, text=True)
            st = 'survived' if r.returncode == 0 else ('nobuild' if 'could not compile' in r.stderr else 'killed')
        except Exception as e:
            st = 'error'
        out.append((mid, st))
        subprocess.run('patch -p1 -R -s < %s' % pf, shell=True, cwd=d)
        open('%s/test_w%d.log' % (OUT, wid), 'a').write('%s %s\n' % (mid, st))
    shutil.rmtree(d + '/target', ignore_errors=True)
    return out


def test(nw=6):
    ids = sorted(f[:-6] for f in os.listdir(OUT + '/mut'))
    chunks = [(w, ids[w::nw]) for w in range(nw)]
    res = []
    with cf.ProcessPoolExecutor(max_workers=nw) as ex:
        for r in ex.map(test_one, chunks):
            res.extend(r)
    surv = sorted(m for m, s in res if s == 'survived')
    open(OUT + '/survivors.txt', 'w').write('\n'.join(surv) + '\n')
    from collections import Counter
    print(Counter(s for _, s in res), len(surv), 'survivors')


def judge():
    sys.path.insert(0, HERE)
    import props as P
    from verus_run import verify_unit
    import driver, kani_run
    unit_files = {}
    for u in P.UNITS:
        t = open(os.path.join(VERIF, 'contracts', u + '.rs.tmpl')).read()
        unit_files[u] = set(re.findall(r'//@SRC\s+(\S+)\s+::', t))
    surv = [l.strip() for l in open(OUT + '/survivors.txt') if l.strip()]
    def one(mid):
        pf = '%s/mut/%s.patch' % (OUT, mid)
        files = set(re.findall(r'^\+\+\+ b/(\S+)', open(pf).read(), re.M))
        d = tempfile.mkdtemp(prefix='j-', dir=OUT)
        res = []
        try:
            subprocess.run('git -C /repo archive HEAD | tar x -C %s' % d, shell=True, check=True)
            subprocess.run('patch -p1 -s < %s' % pf, shell=True, cwd=d)
            for u in sorted(P.UNITS):
                if unit_files[u] & files:
                    w = tempfile.mkdtemp(prefix='w-', dir=d)
                    r = verify_unit(u, d, w, P.UNITS[u]['rlimit'], P.UNITS[u]['timeout'], False, 2)
                    merged = [i['path'] for i in r.unit.items if i['status'] != 'identical'] if r.unit else []
                    if not merged:
                        continue
                    st = r.status
                    if st == 'violation':
                        fl = [f for f, _ in r.failed]
                        if all(driver.fn_proof_perturbed(r.unit, f) or not driver.fn_was_changed(r.unit, f) for f in fl):
                            st = 'undecided(policy)'
                        elif all(kani_run.FALLBACK.get(re.sub(r'^.*?([A-Za-z_0-9]+::[A-Za-z_0-9]+|[a-z_0-9]+)$', r'\1', f)) for f in fl):
                            st = 'kani-decides'
                        st += ' ' + ','.join(fl[:2])
                    elif st != 'ok':
                        st += ' ' + (r.reason or '')[:80].replace('\n', ' ')
                    res.append('%s:%s' % (u, st))
        finally:
            shutil.rmtree(d, ignore_errors=True)
        line = [l for l in open(pf).read().split('\n') if l.startswith('+') and not l.startswith('+++')] or \
               ['-' + l[1:].strip() for l in open(pf).read().split('\n') if l.startswith('-') and not l.startswith('---')]
        return mid, res, (line[0][1:].strip() if line else '')
    with cf.ThreadPoolExecutor(max_workers=5) as ex:
        for mid, res, line in ex.map(one, surv):
            print('%-34s %-60s | %s' % (mid, ' '.join(res) or '(no unit takes this function)', line[:90]), flush=True)


if __name__ == '__main__':
    cmd = sys.argv[1]
    if cmd == 'gen':
        gen(sys.argv[2] if len(sys.argv) > 2 else 'ror')
    elif cmd == 'test':
        test(int(sys.argv[2]) if len(sys.argv) > 2 else 6)
    elif cmd == 'judge':
        judge()
    elif cmd == 'clean':
        shutil.rmtree(OUT, ignore_errors=True)
