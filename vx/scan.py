"""Syntactic scans reported as checked frame conditions (not proofs): determinism of the builder-side sources (C15)
and absence of `unsafe` in the library (C20)."""
import os
import sys

sys.path.insert(0, os.path.dirname(os.path.abspath(__file__)))
from rtok import tokenize, parse_items, match_close

DETERMINISM_FILES = ['src/raw/build.rs', 'src/raw/registry.rs', 'src/raw/node.rs', 'src/bytes.rs',
                     'src/raw/counting_writer.rs', 'src/raw/crc32.rs', 'src/raw/common_inputs.rs', 'src/map.rs', 'src/set.rs']
DETERMINISM_TOKENS = {'RandomState', 'HashMap', 'HashSet', 'DefaultHasher', 'thread_local', 'SystemTime', 'Instant',
                      'getrandom', 'thread_rng', 'rand', 'ThreadId', 'available_parallelism', 'AtomicUsize', 'AtomicU64'}
DETERMINISM_PAIRS = [('static', 'mut'), ('env', '::'), ('process', '::'), ('as', '*')]


def code_tokens(path):
    """tokens of a source file without its #[cfg(test)] modules (comments and strings are not identifiers)"""
    toks, _ = tokenize(open(path).read())
    drop = set()
    for it in parse_items(toks, 0, len(toks)):
        if it.kind == 'mod':
            attrs = ' '.join(t.text for t in toks[it.start:it.hstart])
            if 'cfg' in attrs and 'test' in attrs:
                drop.update(range(it.start, it.end))
    return [t for k, t in enumerate(toks) if k not in drop]


def scan_determinism(repo):
    hits = []
    files = 0
    for rel in DETERMINISM_FILES:
        p = os.path.join(repo, rel)
        if not os.path.exists(p):
            continue
        files += 1
        toks = code_tokens(p)
        for k, t in enumerate(toks):
            if t.kind == 'ident' and t.text in DETERMINISM_TOKENS:
                hits.append('%s:%d: `%s`' % (rel, t.line, t.text))
            for a, b in DETERMINISM_PAIRS:
                if t.text == a and k + 1 < len(toks) and toks[k + 1].text == b:
                    hits.append('%s:%d: `%s %s`' % (rel, t.line, a, b))
    return files, hits


def scan_unsafe(repo):
    hits = []
    files = 0
    for root, _, names in os.walk(os.path.join(repo, 'src')):
        for n in sorted(names):
            if not n.endswith('.rs'):
                continue
            files += 1
            p = os.path.join(root, n)
            for t in code_tokens(p):
                if t.kind == 'ident' and t.text == 'unsafe':
                    hits.append('%s:%d: `unsafe`' % (os.path.relpath(p, repo), t.line))
    return files, hits
