"""Property -> units / Kani groups table (mirrors DESIGN.md section 8)."""
import json
import os
import re

VERIF = os.path.dirname(os.path.dirname(os.path.abspath(__file__)))

TRUSTED_BASE = [
    'Verus 0.2026.09.13 and its Z3 (incl. by(bit_vector), by(nonlinear_arith))',
    'vstd specifications of Vec, slices, Option, Result, integer operations',
    'rustc semantics for the rewrite rules R1-R16 (vx/rules.md)',
    'the extractor (vx/extract.py) and driver: mitigated by the token-equality re-check, ledger, canary, assumption scan',
    '64-bit usize',
]

UNITS = {
    'automaton': {'rlimit': 50, 'timeout': 120},
    'crc': {'rlimit': 50, 'timeout': 120},
    'cw': {'rlimit': 50, 'timeout': 120},
    'open': {'rlimit': 50, 'timeout': 120},
    'bytesio': {'rlimit': 50, 'timeout': 120},
    'builder': {'rlimit': 150, 'timeout': 400},
    'encode': {'rlimit': 100, 'timeout': 240},
    'getkey': {'rlimit': 50, 'timeout': 120},
    'stream': {'rlimit': 50, 'timeout': 240},
    'reader': {'rlimit': 50, 'timeout': 120},
    'decode': {'rlimit': 100, 'timeout': 240},
    'layout': {'rlimit': 200, 'timeout': 300},
    'registry': {'rlimit': 50, 'timeout': 120},
    'ops': {'rlimit': 50, 'timeout': 240},
    'heap': {'rlimit': 50, 'timeout': 120},
    'optrace': {'rlimit': 50, 'timeout': 120},
    'difftrace': {'rlimit': 50, 'timeout': 120},
    'compose': {'rlimit': 50, 'timeout': 120},
}

CRC_KANI = ['crc_byte_step_is_bitwise', 'masked_spec', 'table16_row0', 'table_xor_linear', 'table16_succ_00', 'table16_succ_01', 'table16_succ_02', 'table16_succ_03', 'table16_succ_04', 'table16_succ_05', 'table16_succ_06', 'table16_succ_07', 'table16_succ_08', 'table16_succ_09', 'table16_succ_10', 'table16_succ_11', 'table16_succ_12', 'table16_succ_13', 'table16_succ_14']

# the node format's bit-level functions, second back end (kani/k_bits.rs): every property that owns the encoders / decoders runs them
BITS_KANI = ['bits_pack_sizes', 'bits_state_any', 'bits_state_any_sizes', 'bits_state_one', 'bits_state_new', 'bits_pack_size', 'bits_output']

PROPS = {
    'C15': {
        'units': ['builder', 'registry', 'encode', 'bytesio', 'cw'],
        'kani': ['to_le_bytes_spec'],
        'scans': ['determinism'],
        'own': {'builder': r'MapBuilder|SetBuilder|Builder::(new|new_type|finish|into_inner|bytes_written|get_ref|insert|add|memory|into_fst|extend_iter)$|from_iter', 'registry': r'Registry::hash|Registry::entry',
                # the encoders are deterministic functions of their arguments whatever they write (their content is C09's); the byte writers must
                # hand every byte to the sink (else the output depends on the sink)
                'encode': r'^$', 'bytesio': r'io_write|pack_uint'},
        'level_text': 'Proof of delegation: MapBuilder::{new, insert, finish, into_inner, get_ref, bytes_written}, SetBuilder::{...} and '
                      'Builder::{new, finish} are verified to be exactly the raw-builder calls (same result, same state), so the raw, map and '
                      'set builders are one code path; every emitting function appends a byte string that is a spec function of builder '
                      'state and arguments. Determinism: verified executable functions are functions of their inputs unless an external '
                      'callee is not; a token scan of the builder-side sources for RandomState / HashMap / thread_local / static mut / clock / '
                      'env / pointer casts is reported as a checked frame condition (not a proof).',
        'level_note': '"Across processes and threads" not applicable (no thread or process model); extend_stream (raw, map, set) is verified like extend_iter. '
                      'memory()/into_fst/into_map/into_set, from_iter (Map, Set), Fst::from_iter_set/from_iter_map and extend_iter are verified on '
                      'their real bodies: each is the same insert/add sequence on the same raw builder, over Vec<u8> as an infallible sink.',
        'explanation': '',
        'assumptions': ['determinism scan is syntactic', 'processes / threads: not applicable'],
    },
    'C01': {
        'units': ['builder', 'encode', 'layout', 'decode', 'registry', 'bytesio', 'cw', 'stream', 'open', 'compose'],
        'kani': ['read_le','unpack_le','to_le_bytes_spec','pack_roundtrip','common_tables','find_input_scan','seek_position'] + BITS_KANI,
        'own': {'stream': r'StreamWithState::(new|seek_min|next_with)|Stream::|impl&%\\d+::(next|into_stream)|Output::',
                'open': r'Fst::(new|len|is_empty|as_ref)|FstRef::(len|is_empty)|Map::|Set::', 'cw': r'.',
                # of the cache, the round trip needs soundness (a hit returns the address recorded for that very node): entry / clone_from /
                # the cell; which row a node goes to and who is evicted is C12's and C15's business
                'registry': r'entry|clone_from|RegistryCell|eq$|Registry::new|BuilderNode::(clone|default)'},
        'level_text': 'Proof, link by link: (1) every accepted insert/add extends the denotation of the builder (unfinished stack over the '
                      'emitted graph) by exactly (key, value) - Builder::{insert, add, insert_output, compile_from, compile} and all '
                      'UnfinishedNodes methods on their real bodies; (2) into_inner: the listing of graph(body) at the root address equals '
                      'that denotation, the footer carries len, root and the masked CRC; (3) graph(body) is defined from the bytes by the '
                      'spec-level decoder: compile_to appends exactly node_bytes (unit encode), node_bytes decodes to the node and older '
                      'addresses are untouched (unit layout: L3a/L3b, graph push), and the real decoder implements that spec decoder (unit '
                      'decode: dec_view == dec); (4) streaming a well-formed graph yields its listing in order (unit stream), len() is the '
                      'footer field (unit open). All fan-outs 0..256, all pack widths, values to u64::MAX, every cache geometry.',
        'level_note': 'Sums of outputs along a path fit in u64: proved (builder: sums_ok carried through every stack operation, no assumption '
                      'left in Output::cat; compose: thm_built_file_fits gives the streams\' `fits` and the lookups\' `sums_fit` for every built '
                      'file). The reader units state their contracts over g() = (file, version, fdom(file, version)); fdom is one shared definition '
                      '(inc/fdom_defs.rs: the body parsed backwards), opaque in the reader units, and unit compose proves for it - thm_built_file_ok - '
                      'wf_graph, the listing, fits, sums_fit and canon of every built file. '
                      'Registry::entry is assumed clause-for-clause as verified in unit registry. std contracts (write_all, Vec, slice order).',
        'explanation': '',
        'assumptions': [],
    },
    'C09': {
        'units': ['encode', 'layout', 'decode', 'builder', 'bytesio', 'cw', 'crc'],
        # the footer's checksum is part of the format: the masked CRC-32C (a mask or table changed on the writing and the verifying side alike still round-trips)
        'kani': ['read_le','unpack_le','to_le_bytes_spec','pack_roundtrip','common_tables','common_tables_pinned'] + CRC_KANI + BITS_KANI,
        'own': {'builder': r'Builder::(compile|compile_from|new_type|new|into_inner|insert_output)$'},
        'level_text': 'Proof: encoder and decoder are verified against one forward-layout specification written from the format description '
                      '(header 3 + type; the three node forms; state byte; sizes nibbles; reverse transition order; index iff more than 32 '
                      'transitions; 256 escape; deltas relative to the node start with 0 = empty-final sentinel; footer len, root, '
                      'checksum), so a change made consistently to writer and reader still fails. Builder::compile writes a node only at '
                      'count(), never writes the empty-final node or a resident node, every transition target is an earlier emitted address '
                      'or 0; nodes tile the body because graph(body) is defined by parsing it backwards node by node.',
        'level_note': 'The common-input tables are an assumed contract (Kani K-tables, complete; the table and the rank + 1 field mapping are pinned to the format\'s). The loop that fills the 256-entry index is verified in place (rule R21: enumerate as a counter). The footer checksum is the format\'s masked CRC-32C: unit crc and the K-crc harnesses belong to this property too. The bit-level setters / getters are also stated as complete CBMC harnesses (K-bits), which decide when Verus cannot.',
        'explanation': '',
        'assumptions': [],
    },
    'C02': {
        'units': ['reader', 'decode', 'builder', 'encode', 'bytesio', 'cw', 'layout', 'compose'],
        'kani': ['read_le','unpack_le','common_tables','find_input_scan'] + BITS_KANI,
        'level_text': 'Proof: FstRef::get / contains_key (real bodies) and the Fst / Map / Set wrappers are verified to return exactly '
                      'lookup(root, key) over the decoded graph for every probe of every length (absent keys, prefixes, extensions, '
                      'divergence at any byte, the empty key are instances). The decoder - State::new, Node::new, all accessors of the three '
                      'node forms, find_input by index table and by scan - is verified on its real bodies against dec_view, a spec function '
                      'of the file bytes written from the format description (any version).',
        'level_note': 'The reader unit states the Node accessor contracts over an abstract decode function; the decode unit proves them '
                      'over dec_view under `plausible` (the address holds a node that decodes inside the file) - the link between the two '
                      'phrasings is a token-identical CONTRACT-OF link (inc/node_iface.rs). The property speaks about *built* maps, so the '
                      'writer-side units (builder, encode, bytesio, cw, layout) are part of this check as well.',
        'explanation': '',
        'assumptions': [],
    },
    'C05': {
        'units': ['ops', 'heap', 'optrace', 'difftrace'],
        'kani': ['slot_order'],
        'level_text': 'Proof: the real bodies of Union/Intersection/SymmetricDifference/Difference::next are verified against an abstraction '
                      'of the stream heap (the item of each stream in the heap + what each stream has not yielded yet): each call performs '
                      'union steps at the minimal outstanding key and reports exactly the (index, value) pairs of the streams headed by that '
                      'key, filtered by at-least-one / all / odd / first-only. Spec-level trace theorems derive ascending order, '
                      'each-key-once, completeness and soundness w.r.t. the original streams. StreamHeap::{new,pop,peek_is_duplicate,'
                      'pop_if_equal,pop_if_le,refill,num_slots} and Slot::{new,set_input,set_output} are verified on their real bodies.',
        'level_note': 'Trusted: a contract for std BinaryHeap on a ghost bag (pop/peek return a maximum), Slot order = reverse '
                      'lexicographic (key, output) (an axiom of unit heap; checked on the real impl Ord / PartialOrd by the Kani harness slot_order for all '
                      'keys of up to 3 bytes and all outputs - bounded by the key length), each user stream modelled by its abstract remainder rest() (the '
                      'property premise: strictly increasing keys). The ops unit sees the heap through contracts that are CONTRACT-OF-identical '
                      'to the ones unit heap verifies. Fst::{op, is_disjoint, is_subset, is_superset} and OpBuilder::add are verified on their real '
                      'bodies: the counting loops are related to the number of keys two sorted streams share / hold together (merge recursion), '
                      'which equals the receiver\'s key count exactly when the subset / superset relation holds; premise: the stored key count is '
                      'the number of keys (C09, proved of every built file in unit builder). OpBuilder::push (Box<dyn Streamer>) and '
                      '`&Fst` / `&Map` / `&Set` as stream sources are assumed; the map / set front ends (OpBuilder new/add/push/union/intersection/difference/'
                      'symmetric_difference, the four next wrappers each, Map::op, Set::op, Set::is_disjoint/is_subset/is_superset) are verified on '
                      'their real bodies over the raw contracts.',
        'explanation': '',
        'assumptions': ['OpBuilder::push boxes a `dyn Streamer`: assumed to append a stream yielding the argument\'s items'],
    },
    'C12': {
        'units': ['registry', 'builder', 'compose'],
        'kani': ['registry_find'],
        'own': {'builder': r'Builder::(compile|compile_from|insert_output|into_inner|new_type|thm_no_duplicate_nodes)$|BuilderNode|RegistryCell|lemma_cfx|lemma_tsz|lemma_lcp'},
        'level_text': 'Proof. Cache mechanism: RegistryCache::{entry, promote}, Registry::{entry, hash}, RegistryCell::* and '
                      'BuilderNode::clone_from are verified on their real bodies for every cache geometry (a resident node is always found, '
                      'with the address recorded for that very node; a hit moves exactly that cell to the front; a miss evicts exactly the '
                      'last cell of the row - and nothing at all unless that cell was occupied; other rows are untouched). The builder sees '
                      'the cache through a contract that is, clause for clause, a subset of what unit registry verifies (CONTRACT-WEAKER-THAN). '
                      'No eviction => no duplicates: Builder::compile keeps "every emitted node is still recorded" (all_res) as long as the '
                      'row of the node it records has room, a node is recorded with one address only, and thm_no_duplicate_nodes derives that '
                      'no node has been written twice. Minimality for sets: every emitted node is live, never the shared empty final node and '
                      '(all values 0) carries no output - carried through the builder into `built`; thm_equivalent_states_are_one / '
                      'thm_built_set_minimal (unit compose): in such a graph without duplicates two states that accept the same keys are the '
                      'same state. Trie bound: |emitted nodes| + |unfinished frames| <= 1 + tsz(keys so far) is an invariant of the builder '
                      '(one node at most per frame taken off the stack; a new key adds as many frames as bytes it does not share with its '
                      'predecessor), so a finished file has at most 1 + tsz(keys) nodes.',
        'level_note': '"As long as no eviction has happened" is stated per call of Builder::compile (the only function that writes nodes or '
                      'touches the cache) plus a state theorem; the induction over the calls of one build is not a single mechanised statement. '
                      'tsz(keys) is the recurrence "each key adds the bytes it does not share with its predecessor"; unit compose proves '
                      '(thm_trie_size) that 1 + tsz(keys) is the number of distinct prefixes of a sorted key list - the nodes of its trie. The sharing ratio on '
                      'the shipped corpora is an empirical clause no contract decides (a smaller but well-formed cache geometry passes). '
                      'Registry::new, RegistryCell::none, BuilderNode::default / clone are verified on their real bodies (an empty, well-placed cache of rows x columns cells); '
                      'assumed: the derived PartialEq of BuilderNode (field-wise), the derived Clone of RegistryCell (restated as its expansion), std Iterator::position on a slice iterator.',
        'explanation': '',
        'assumptions': ['corpus sharing ratio: not decidable by a function contract (DESIGN.md section 10)',
                        ],
    },
    'C03': {
        'units': ['stream', 'decode', 'builder', 'encode', 'bytesio', 'cw', 'layout', 'compose'],
        'kani': ['seek_position'],
        'own': {'stream': r'.'},
        'level_text': 'Proof: StreamWithState::seek_min and next_with (real bodies) are verified against the depth-first listing of the '
                      'decoded graph: after seek_min exactly the entries >= / > the lower bound are outstanding; each next returns the first '
                      'outstanding entry that the upper bound admits and leaves the rest; None exactly when nothing is left, forever. '
                      'Bound::{exceeded_by,is_empty,is_inclusive} and the ge/gt/le/lt builder methods are verified against lex order; each '
                      'sets exactly its own bound (so the last setting wins) and into_stream composes them.',
        'level_note': 'Node accessors / FstRef::node are assumed contracts (decoder, unit decode); the closure of position(|t| t.inp > b) is verified '
                      'where it stands (under its context precondition: no transition carries b), the provided method Iterator::position over the crate\'s Transitions iterator is a std-level assumption stated for any predicate (Kani K-scan runs the real expression, every fan-out in the thorough tier). That the listing is strictly ascending and agrees with get() is a '
                      'spec-level consequence of wf_graph (listing lemmas). Partial output sums fit in u64: the precondition `fits`, proved of every built file in unit compose (thm_built_file_fits).',
        'explanation': '',
        'assumptions': [],
    },
    'C04': {
        'units': ['stream', 'automaton', 'decode', 'builder', 'encode', 'bytesio', 'cw', 'layout', 'compose'],
        'kani': ['seek_position'],
        'own': {'stream': r'.', 'automaton': r'.'},
        'level_text': 'Proof: the stream contracts of C03 are stated for an arbitrary A: Automaton of which only the trait contract of C18 '
                      'is known (inv/denot/lang; can_match only has to be sound), so the result - the in-range keys k with lang(k), in '
                      'listing order with their values - does not depend on how precise the pruning hints are. The shipped automata and '
                      'their compositions are verified to satisfy that contract (unit automaton), so a shipped automaton that stops '
                      'obeying it is reported here as well.',
        'level_note': 'accept_eof is required to return None (the property excludes the end-of-key hook). The state reported by '
                      'search_with_state (third tuple component) is not yet part of the verified contract.',
        'explanation': '',
        'assumptions': ['search_with_state: the reported automaton state is not covered by the contract'],
    },
    'C16': {
        'units': ['getkey', 'builder', 'compose', 'decode', 'encode', 'layout', 'bytesio', 'cw'],
        'kani': ['getkey_take_while_last', 'read_le', 'unpack_le', 'common_tables'],
        'own': {'builder': r'Output::|find_common_prefix_and_set_output|add_output_prefix|add_suffix|last_compiled|top_last_freeze|pop_freeze|pop_empty|pop_root|set_root_output|'
                           r'Builder::(compile|compile_from|insert_output|insert|into_inner|new_type|new|extend_iter|extend_stream)$|MapBuilder|lemma_'},
        'level_text': 'Proof: FstRef::get_key_into (real body, one R11 hoist) and the Fst::get_key / get_key_into wrappers are verified '
                      'against lookup over the decoded graph: true with exactly the key of value v appended to the caller\'s buffer, false '
                      'only if no key has value v - including a final root with a non-zero output (the empty key) - under the structural '
                      'premise `canon` on the nodes reachable from the root. That premise is derived for built maps: the builder unit carries '
                      'the output placement ("below every node but the root some key carries no further output": tix / split_ok / ftight) '
                      'through find_common_prefix_and_set_output, compile_from, compile, insert_output, insert and the map front ends into '
                      'fin_post; unit compose (thm_built_canon) proves canon for every such file whose values strictly increase with its keys.',
        'level_note': 'Node accessors are assumed contracts proved in unit decode (CONTRACT-OF); the closure of take_while(..).last() is verified where it '
                      'stands, the adapter chain over the crate\'s Transitions iterator is a std-level assumption stated for any predicate (Kani K-scan runs the real expression: window 8 quick / 40 thorough). The readers\' fdom(file) is the shared definition for which unit compose '
                      'proves the premise (thm_built_file_ok). A raw builder that mixes insert with a repeated '
                      'add of the same key may move a value off the path (the model stays right, the placement is not kept): such histories are '
                      'outside the premise (ti is kept by insert and the map front ends only).',
        'explanation': '',
        'assumptions': ['std: take_while(p).last() over the crate\'s Transitions iterator (assumed for any predicate; the predicate itself is verified in place); K-scan getkey_take_while_last cross-checks the real expression within its window'],
    },
    'C06': {
        'units': ['builder'],
        'kani': [],
        'own': {'builder': r'Builder::(check_last_key|insert|add|insert_output|extend_iter|extend_stream)$|from_iter'},
        'level_text': 'Proof: Builder::check_last_key is verified on its real body against the full ordering contract (which answer, '
                      'both error payloads, the whole struct unchanged on Err, only `last` changed on Ok); insert/add are verified to run '
                      'it first and to leave the builder untouched when it rejects, and otherwise to extend the denotation of the builder '
                      'by exactly the accepted (key, value).',
        'level_note': 'Slice order on [u8] is an assumed std contract (lexicographic). extend_iter and extend_stream (raw, map, set), Map/Set::from_iter and '
                      'Fst::from_iter_set/from_iter_map are verified on their real loops (a `for` over a generic iterator written out as the loop over '
                      'next() it abbreviates, rule R19; an IntoIterator parameter taken at I: Iterator, rule R20; streams through a ghost `rest()` on '
                      'the Streamer trait) against the prophetic iterator model of vstd: Ok only if every item passed the ordering check, and then '
                      'exactly these entries were added; on a sink that cannot fail (Vec<u8>) Ok *iff* every item passes. What an Err leaves behind '
                      'after an iterator front end is not stated (a converting `?` hides whether the error came from the sink). '
                      'SetBuilder::extend_stream rejected repeats (genuine defect, fixed by 3c9cd25).',
        'explanation': 'C06 clauses are postconditions of check_last_key / insert / add in unit builder.',
        'assumptions': ['termination of the iterator front ends is not proved (a generic iterator or stream may be infinite)', 'prophetic iterator model of vstd for generic Iterator; ghost rest() model for Streamer implementors'],
    },
    'C07': {
        'units': ['cw', 'bytesio', 'encode', 'builder'],
        'kani': ['to_le_bytes_spec'],
        # the functions that talk to the sink (what is written where is C01/C09's business: pack_size, the PackSizes setters and the
        # stack operations do no I/O)
        'own': {'bytesio': r'io_write|pack_uint', 'encode': r'compile|pack_delta|pack_uint',
                'builder': r'Builder::(new|new_type|compile|compile_from|insert_output|insert|add|into_inner|finish|bytes_written|get_ref|extend_iter|extend_stream|memory|into_fst)$|CountingWriter|MapBuilder|SetBuilder'},
        'level_text': 'Proof per function: CountingWriter::write re-establishes count == bytes accepted and checksum == CRC of the bytes '
                      'accepted for every behaviour the sink contract allows (any accepted prefix, any error); every emitting builder '
                      'function appends, through write_all, a byte string that is a spec function of builder state and arguments.',
        'level_note': 'The two-run equality (same inserts, different sinks => same bytes) is argued from the per-function contracts, not '
                      'mechanised (2-safety). std write_all default body trusted to loop on write. Counter overflow assumed away (2^64 bytes).',
        'explanation': 'Sink model = external trait specification on std::io::Write (inc/write_spec.rs).',
        'assumptions': [],
    },
    'C08': {
        'units': ['crc', 'cw', 'open', 'bytesio', 'builder'],
        'kani': ['read_le','to_le_bytes_spec','crc_byte_step_is_bitwise','masked_spec','table16_row0','table_xor_linear','table16_succ_00','table16_succ_01','table16_succ_02','table16_succ_03','table16_succ_04','table16_succ_05','table16_succ_06','table16_succ_07','table16_succ_08','table16_succ_09','table16_succ_10','table16_succ_11','table16_succ_12','table16_succ_13','table16_succ_14'],
        'own': {'builder': r'Builder::(into_inner|new_type|new)$', 'bytesio': r'io_write_u32_le|write_u32_le', 'open': r'verify|as_bytes|as_ref|map_data|into_inner|as_inner|as_fst|into_fst|::from$'},
        'level_text': 'Proof: crc32c_slice16 equals the bitwise CRC-32C fold for every length and chunking (table facts assumed, see note); '
                      'into_inner writes masked_crc of everything before it as the last 4 bytes; verify() returns Ok iff the stored word '
                      'equals that value; a spec-level theorem shows a single altered byte always changes one side of that equation.',
        'level_note': 'Six facts about the generated CRC tables are assumed in unit crc and are to be discharged by Kani harnesses on the real '
                      'tables (K-tables). Bursts of up to 4 bytes are not decided.',
        'explanation': '',
        'assumptions': [],
    },
    'C11': {
        'units': ['cw', 'bytesio', 'encode', 'builder'],
        'kani': ['to_le_bytes_spec'],
        'own': {'builder': r'Builder::(into_inner|new_type|new|compile|compile_from|insert_output|insert|add|finish)$|MapBuilder::(finish|into_inner)|SetBuilder::(finish|into_inner)',
                'bytesio': r'io_write|pack_uint', 'encode': r'compile|pack_delta|pack_uint'},
        'level_text': 'Proof: every writing function is verified against the sink model: it reports Ok only if every byte of its output '
                      'was accepted (sink\' == sink + expected bytes) and cannot panic; a failing write/flush propagates through `?`.',
        'level_note': 'The error *variant* (Error::Io) follows from impl From<io::Error> (verified) and the definition of `?` (Verus only '
                      'knows `is Err` for a converting `?`). The sink model carries a ghost `flushed` state (true after a successful flush, unknown after a write): a build is reported finished only with the flush following the last write.',
        'explanation': '',
        'assumptions': [],
    },
    'C10': {
        'units': ['open', 'decode', 'crc'],
        # a version-3 file of an earlier build verifies only if the checksum function is still the format's
        'kani': ['read_le','unpack_le','common_tables','find_input_scan','common_tables_pinned'] + CRC_KANI + BITS_KANI,
        'own': {'open': r'Fst::(new|verify|as_ref|map_data|into_inner|as_inner)|u64_to_usize|From|::from$|map_data'},  # decode: every obligation (the decoder is version-parametric)
        'level_text': 'Proof: Fst::new is verified generically over D: AsRef<[u8]> against per-version footer offsets written from '
                      'the format description: versions 1-3 with at least 32/36 bytes open with the footer fields at the '
                      'per-version offsets, shorter inputs give Format{size}, unsupported versions Version{expected:3, got}; '
                      'verify() returns ChecksumMissing exactly when the version carries no checksum.',
        'level_note': 'Vec, slice, Cow and memory maps are one obligation through the AsRef trait specification (as_ref() returns a '
                      'stable view: assumed). read_u64_le/read_u32_le contracts assumed here (Kani K-bytes). That every query on an '
                      'old-version file answers by content is decided only as far as the version-parametric decoder contracts go '
                      '(see C02/C03 for the reader side).',
        'explanation': 'Fst::new / verify and the metadata accessors of src/raw/mod.rs verified against the C10 clauses.',
        'assumptions': [],
    },
    'C20': {
        'units': ['open', 'crc'],
        'kani': ['read_le','crc_byte_step_is_bitwise','table16_row0','table16_succ_00','table16_succ_01','table16_succ_02','table16_succ_03','table16_succ_04','table16_succ_05','table16_succ_06','table16_succ_07','table16_succ_08','table16_succ_09','table16_succ_10','table16_succ_11','table16_succ_12','table16_succ_13','table16_succ_14'],
        'scans': ['unsafe'],
        'level_text': 'Proof of totality: Verus discharges every slice-index, arithmetic and unwrap obligation of Fst::new for all byte '
                      'strings of all lengths, and of len/is_empty/size/fst_type/as_bytes/to_vec/verify on every value satisfying '
                      'the invariant new establishes; CheckSummer::update (slice-by-16 CRC) is total for every slice.',
        'level_note': 'Trusted: Verus/Z3, vstd. The Fst invariant (checksum present => at least 36 bytes) rests on new being the only '
                      'constructor (private fields: structural). "No unsafe code" is checked by a token scan of src/ (a lint, reported '
                      'as a checked assumption, not a proof).',
        'explanation': 'Absence of panics in open-then-verify is the absence of failed safety obligations in units open and crc.',
        'assumptions': [],
    },
    'C18': {
        'units': ['automaton'],
        'kani': [],
        'level_text': 'Proof: every method of every built-in automaton and combinator (Str, Subsequence, AlwaysMatch, '
                      'StartsWith, Union, Intersection, Complement, &T and the trait defaults) is verified by Verus, for all '
                      'states and bytes, against a residual-language contract taken from the property statement; '
                      'generic component automata are universally quantified through the trait contract.',
        'level_note': 'Trusted: Verus/Z3, vstd, the extractor (re-checked token equality with /repo on every run). '
                      'accept_eof excluded as the property excludes it. No external_body in this unit.',
        'explanation': 'Every built-in automaton and combinator of src/automaton/mod.rs is verified against the '
                       'residual-language trait contract (inv/denot/lang); hints only have to be sound.',
        'assumptions': ['accept_eof is outside the property and outside the contract'],
    },
}


NOT_APPLICABLE = {
    'C01': 'not yet productised in this revision (unit under construction; see DESIGN.md section 8)',
    'C02': 'not yet productised in this revision (unit under construction; see DESIGN.md section 8)',
    'C03': 'not yet productised in this revision (unit under construction; see DESIGN.md section 8)',
    'C04': 'not yet productised in this revision (unit under construction; see DESIGN.md section 8)',
    'C05': 'not yet productised in this revision (unit under construction; see DESIGN.md section 8)',
    'C06': 'not yet productised in this revision (unit under construction; see DESIGN.md section 8)',
    'C07': 'not yet productised in this revision (unit under construction; see DESIGN.md section 8)',
    'C08': 'not yet productised in this revision (unit under construction; see DESIGN.md section 8)',
    'C09': 'not yet productised in this revision (unit under construction; see DESIGN.md section 8)',
    'C10': 'not yet productised in this revision (unit under construction; see DESIGN.md section 8)',
    'C11': 'not yet productised in this revision (unit under construction; see DESIGN.md section 8)',
    'C12': 'not yet productised in this revision (unit under construction; see DESIGN.md section 8)',
    'C13': 'heap consumption: neither Verus (Vec abstracted to Seq, no allocator) nor Kani (unbounded malloc) has an allocation model a contract could mention',
    'C14': 'heap consumption / allocation-freedom is an effect on the allocator that no function contract available here can express',
    'C15': 'not yet productised in this revision (unit under construction; see DESIGN.md section 8)',
    'C16': 'not yet productised in this revision (unit under construction; see DESIGN.md section 8)',
    'C17': 'Levenshtein construction runs over HashMap, str::chars and utf8-ranges iterators: outside the Verus dialect without a rewrite (a model); the one contract statable on the real code did not finish in CBMC (crash, >30 min)',
    'C19': 'quantifies over thread interleavings, processes, temp files and CLI flags of fst-bin: Kani has no threads, Verus would need the pipeline rewritten onto its permission types (a model); crossbeam/tempfile/memmap2 have no contracts',
    'C20': 'not yet productised in this revision (unit under construction; see DESIGN.md section 8)',
}

SOURCE_COMMITS = []

NOTES = ('Contract-based deductive verification. ./check <ID> re-extracts the contracted functions from /repo working '
         'tree on every run (vx/extract.py), verifies them with Verus and runs the Kani lemma harnesses. Exit 0 held, '
         '1 VIOLATION, 2 undecided (lost anchor, unsupported construct, rlimit; never on the unchanged tree).')


def load_known_findings():
    p = os.path.join(VERIF, 'known_findings.json')
    if not os.path.exists(p):
        return []
    return json.load(open(p)).get('findings', [])


def match_known(known, pid, unit, fn, texts):
    for k in known:
        if k.get('status') != 'open':
            continue
        if k['property'] != pid or k['unit'] != unit or k['obligation'] != fn:
            continue
        pats = k.get('error_patterns', [])
        blob = '\n'.join(texts)
        # every error block must match one of the listed patterns: a different failure of the same obligation
        # is still reported
        ok = True
        for t in texts:
            if not any(re.search(p_, t) for p_ in pats):
                ok = False
        if ok:
            return k
    return None
