#!/usr/bin/env python3
"""Regenerate MANIFEST.json from vx/props.py (development aid)."""
import json, os, sys
HERE = os.path.dirname(os.path.abspath(__file__))
sys.path.insert(0, HERE)
import props as P
VERIF = os.path.dirname(HERE)
ids = [json.loads(l)['id'] for l in open(os.path.join(VERIF, 'properties.jsonl'))]
checks = []
for pid in ids:
    if pid not in P.PROPS:
        continue
    pc = P.PROPS[pid]
    checks.append({
        'property_id': pid,
        'quick_cmd': './check %s --tier quick' % pid,
        'thorough_cmd': './check %s --tier thorough' % pid,
        'evidence_file': 'evidence/%s.json' % pid,
        'replay_cmd_template': './check %s --replay {path}' % pid,
        'engine': 'verus+kani',
        'level_claimed': {'category': 'proof', 'text': pc['level_text'], 'design_ref': pc.get('design_ref', 'DESIGN.md section 8, ' + pid)},
        'level_note': pc['level_note'],
        'technique': pc.get('technique', 'contract-based deductive verification (Verus) of the real function bodies, extracted mechanically on every run'),
    })
na = [{'property_id': pid, 'reason': P.NOT_APPLICABLE[pid]} for pid in ids if pid not in P.PROPS]
m = {
    'version': 1,
    'setup_cmd': './setup.sh',
    'hooks': {
        'guard': 'cfg(kani) (exists only in the scratch copies the Kani runner makes; no hook is committed to /repo)',
        'enable': 'none needed: Verus units are extracted from the working tree, Kani harness fragments are appended to a scratch copy',
        'baseline_off_cmd': 'cd /repo && cargo test --workspace --no-fail-fast --offline',
        'source_commits': P.SOURCE_COMMITS,
        'add_only': True,
    },
    'engines': [
        {'name': 'verus', 'path': 'vx/', 'serves_properties': [c['property_id'] for c in checks],
         'kind_free_text': 'deductive verifier (Z3) on function bodies extracted from /repo each run into contracts/*.rs.tmpl'},
        {'name': 'kani', 'path': 'kani/', 'serves_properties': [pid for pid in ids if pid in P.PROPS and P.PROPS[pid].get('kani')],
         'kind_free_text': 'CBMC harnesses appended to a scratch copy of the crate: complete bit-level / table lemmas the Verus units assume, counterexample replay, and the second back end for the small bit-level functions (kani/k_bits.rs: the same contracts as loop-free harnesses over the full input domain; decides when Verus cannot discharge such a function on the text as written)'},
    ],
    'checks': checks,
    'not_applicable': na,
    'notes': P.NOTES,
}
json.dump(m, open(os.path.join(VERIF, 'MANIFEST.json'), 'w'), indent=1)
print('checks:', [c['property_id'] for c in checks], 'n/a:', [n['property_id'] for n in na])
