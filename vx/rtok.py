"""Rust/Verus tokenizer and item locator used by the extractor.

A token is (kind, text, trivia, line): trivia is the whitespace/comment text
that precedes the token in its file, so that joining trivia+text of a token
run reproduces the original characters.
"""
import re

PUNCT3 = ['<<=', '>>=', '...', '..=', '==>', '<==', '=~=', '!==', '===']
PUNCT2 = ['&&', '||', '==', '!=', '<=', '>=', '->', '=>', '::', '..', '<<', '>>',
          '+=', '-=', '*=', '/=', '%=', '^=', '&=', '|=']


class Tok:
    __slots__ = ('kind', 'text', 'trivia', 'line', 'ghost')

    def __init__(self, kind, text, trivia, line):
        self.kind = kind
        self.text = text
        self.trivia = trivia
        self.line = line
        self.ghost = False

    def __repr__(self):
        return 'Tok(%s,%r,l%d)' % (self.kind, self.text, self.line)


_ident = re.compile(r'[A-Za-z_][A-Za-z0-9_]*')
_num = re.compile(r'[0-9][0-9A-Za-z_]*(\.[0-9][0-9A-Za-z_]*)?')


def tokenize(src):
    toks = []
    i = 0
    n = len(src)
    line = 1
    triv_start = 0
    while i < n:
        c = src[i]
        if c in ' \t\r\n':
            if c == '\n':
                line += 1
            i += 1
            continue
        if src.startswith('//', i):
            j = src.find('\n', i)
            if j < 0:
                j = n
            i = j
            continue
        if src.startswith('/*', i):
            depth = 1
            j = i + 2
            while j < n and depth:
                if src.startswith('/*', j):
                    depth += 1
                    j += 2
                elif src.startswith('*/', j):
                    depth -= 1
                    j += 2
                else:
                    if src[j] == '\n':
                        line += 1
                    j += 1
            i = j
            continue
        trivia = src[triv_start:i]
        start = i
        startline = line
        kind = None
        # raw strings / byte strings
        m = re.match(r'(b?r)(#*)"', src[i:i + 40])
        if m:
            hashes = m.group(2)
            end = src.find('"' + hashes, i + len(m.group(0)))
            if end < 0:
                raise ValueError('unterminated raw string at line %d' % line)
            i = end + 1 + len(hashes)
            kind = 'str'
        elif c == '"' or (c == 'b' and src.startswith('b"', i)):
            j = i + (2 if c == 'b' else 1)
            while j < n and src[j] != '"':
                if src[j] == '\\':
                    j += 1
                j += 1
            i = j + 1
            kind = 'str'
        elif c == "'" or (c == 'b' and src.startswith("b'", i)):
            j = i + (2 if c == 'b' else 1)
            # char literal or lifetime
            if j < n and src[j] == '\\':
                k = src.find("'", j + 2)
                i = k + 1
                kind = 'char'
            elif j + 1 < n and src[j + 1] == "'":
                i = j + 2
                kind = 'char'
            else:
                m2 = _ident.match(src, j)
                if not m2:
                    raise ValueError("bad quote at line %d" % line)
                i = m2.end()
                kind = 'lifetime'
        elif c.isalpha() or c == '_':
            m2 = _ident.match(src, i)
            i = m2.end()
            kind = 'ident'
        elif c.isdigit():
            m2 = _num.match(src, i)
            i = m2.end()
            # "0..n": the regexp does not eat '..' because it wants a digit after '.'
            kind = 'num'
        else:
            for p in PUNCT3:
                if src.startswith(p, i):
                    i += 3
                    break
            else:
                for p in PUNCT2:
                    if src.startswith(p, i):
                        i += 2
                        break
                else:
                    i += 1
            kind = 'punct'
        text = src[start:i]
        line += text.count('\n')
        toks.append(Tok(kind, text, trivia, startline))
        triv_start = i
    tail = src[triv_start:]
    return toks, tail


OPEN = {'(': ')', '[': ']', '{': '}'}
CLOSE = {')': '(', ']': '[', '}': '{'}


def match_close(toks, i):
    """toks[i] is an opening bracket; return index of its partner."""
    depth = 0
    j = i
    while j < len(toks):
        t = toks[j].text
        if toks[j].kind == 'punct':
            if t in OPEN:
                depth += 1
            elif t in CLOSE:
                depth -= 1
                if depth == 0:
                    return j
        j += 1
    raise ValueError('unbalanced bracket at line %d' % toks[i].line)


def render(toks):
    return ''.join(t.trivia + t.text for t in toks)


def texts(toks):
    return [t.text for t in toks]


ITEM_KW = {'fn', 'impl', 'trait', 'struct', 'enum', 'mod', 'type', 'use', 'const', 'static',
           'macro_rules', 'extern', 'union'}
FN_MODS = {'pub', 'const', 'unsafe', 'async', 'extern', 'default', 'open', 'closed', 'spec', 'proof', 'exec',
           'broadcast', 'uninterp', 'tracked', 'ghost', 'axiom'}


def skip_attrs(toks, i, end):
    """skip #[...] and #![...] attributes starting at i"""
    while i < end and toks[i].text == '#':
        j = i + 1
        if j < end and toks[j].text == '!':
            j += 1
        if j < end and toks[j].text == '[':
            i = match_close(toks, j) + 1
        else:
            break
    return i


class Item:
    def __init__(self, kind, name, header, start, hstart, body_open, end):
        self.kind = kind          # fn / impl / trait / struct / ...
        self.name = name          # identifier, or normalised impl header
        self.header = header      # list of header token texts
        self.start = start        # first token incl. attributes
        self.hstart = hstart      # first token after attributes
        self.body_open = body_open  # index of '{' of the body (or None)
        self.end = end            # index one past last token

    def __repr__(self):
        return 'Item(%s %s %d..%d)' % (self.kind, self.name, self.start, self.end)


def strip_generics(ts):
    """remove <...> groups, lifetimes and where-clauses from an impl header token text list"""
    out = []
    depth = 0
    for t in ts:
        if t == 'where' and depth == 0:
            break
        if t == '<':
            depth += 1
            continue
        if t == '>':
            depth -= 1
            continue
        if t == '>>':
            depth -= 2
            continue
        if depth > 0:
            continue
        if t.startswith("'") and len(t) > 1 and not t.endswith("'"):
            continue
        out.append(t)
    return out


EXPR_CONT = {'==>', '<==', '<==>', '&&', '||', '&&&', '|||', '==', '!=', '=', '+', '-', '*', '/', '%', '|', '<', '>', '<=',
             '>=', '=>', '!', '&', '^', '<<', '>>', '=~=', '!==', '===', ':', 'in', 'return', 'by', 'implies'}


def find_spec_body_open(toks, j, end):
    """toks[j:] is a list of Verus spec clauses (requires/ensures/invariant/decreases ...) followed by a body
    block. Returns the index of the body's '{'.  A depth-0 '{' belongs to a clause expression when it follows
    `else`, closes a pending `if`/`match` head, or follows an operator; otherwise it opens the body."""
    pending = 0
    while j < end:
        t = toks[j]
        tx = t.text
        if t.kind == 'punct' and tx in ('(', '['):
            j = match_close(toks, j) + 1
            continue
        if t.kind == 'ident' and tx in ('if', 'match') and toks[j - 1].text != '.':
            pending += 1
        elif t.kind == 'punct' and tx == '{':
            prev = toks[j - 1].text
            if prev == ',':
                return j
            if prev == 'else':
                j = match_close(toks, j) + 1
                continue
            if pending > 0:
                pending -= 1
                j = match_close(toks, j) + 1
                continue
            if prev in EXPR_CONT:
                j = match_close(toks, j) + 1
                continue
            return j
        elif t.kind == 'punct' and tx == ';':
            return j
        j += 1
    raise ValueError('no body after spec clauses at line %d' % toks[min(j, len(toks) - 1)].line)


def find_fn_body_open(toks, i, end, verus):
    """toks[i] is 'fn'. Return index of body '{' or of terminating ';'."""
    j = i
    while j < end:
        t = toks[j]
        tx = t.text
        if t.kind == 'punct':
            if tx in ('(', '['):
                j = match_close(toks, j) + 1
                continue
            if tx == ';':
                return j
            if tx == '{':
                return j
        elif verus and t.kind == 'ident' and tx in SPEC_CLAUSE_KW and toks[j - 1].text != '.':
            return find_spec_body_open(toks, j, end)
        j += 1
    raise ValueError('no body for fn at line %d' % toks[i].line)


SPEC_CLAUSE_KW = {'requires', 'ensures', 'decreases', 'recommends', 'returns', 'opens_invariants', 'no_unwind',
                  'default_ensures'}


def parse_item(toks, i, hi, verus=False):
    """Parse one item starting at toks[i] (attributes included). Returns Item or None at end."""
    start = i
    i = skip_attrs(toks, i, hi)
    if i >= hi:
        return None
    hstart = i
    # visibility
    if toks[i].text == 'pub':
        i += 1
        if i < hi and toks[i].text == '(':
            i = match_close(toks, i) + 1
    # modifiers
    while i < hi and toks[i].kind == 'ident' and toks[i].text in FN_MODS and toks[i].text != 'const':
        if toks[i].text in ('spec', 'proof') and i + 1 < hi and toks[i + 1].text == '(':
            i = match_close(toks, i + 1) + 1
            continue
        if toks[i].text == 'exec' and i + 1 < hi and toks[i + 1].text in ('const', 'static'):
            # Verus `exec const X: T ensures ..., { body }`
            j = i + 2
            while j < hi:
                if toks[j].kind == 'punct' and toks[j].text in ('(', '['):
                    j = match_close(toks, j) + 1
                    continue
                if toks[j].text == '{' and toks[j - 1].text == ',':
                    e = match_close(toks, j)
                    return Item('const', toks[i + 2].text, None, start, hstart, j, e + 1)
                if toks[j].text == '{':
                    j = match_close(toks, j) + 1
                    continue
                if toks[j].text == ';':
                    return Item('const', toks[i + 2].text, None, start, hstart, None, j + 1)
                j += 1
            raise ValueError('exec const without end at line %d' % toks[i].line)
        i += 1
        if toks[i - 1].text == 'extern' and i < hi and toks[i].kind == 'str':
            i += 1
    if i < hi and toks[i].text == 'const' and i + 1 < hi and toks[i + 1].text == 'fn':
        i += 1
    if i >= hi:
        return None
    kw = toks[i].text
    if kw == 'fn':
        name = toks[i + 1].text
        b = find_fn_body_open(toks, i, hi, verus)
        if toks[b].text == ';':
            return Item('fn', name, None, start, hstart, None, b + 1)
        e = match_close(toks, b)
        return Item('fn', name, None, start, hstart, b, e + 1)
    if kw in ('impl', 'trait', 'mod', 'enum', 'struct', 'union'):
        j = i + 1
        while j < hi:
            tx = toks[j].text
            if toks[j].kind == 'punct' and tx in ('(', '['):
                j = match_close(toks, j) + 1
                continue
            if tx in ('{', ';') and toks[j].kind == 'punct':
                break
            j += 1
        header = texts(toks[i:j])
        if kw == 'impl':
            name = ' '.join(strip_generics(header)).replace(' :: ', '::')
        else:
            name = toks[i + 1].text
        if toks[j].text == ';':
            return Item(kw, name, header, start, hstart, None, j + 1)
        e = match_close(toks, j)
        return Item(kw, name, header, start, hstart, j, e + 1)
    if kw == 'macro_rules':
        j = i
        while toks[j].text not in ('{', '('):
            j += 1
        e = match_close(toks, j)
        i = e + 1
        if i < hi and toks[i].text == ';':
            i += 1
        return Item('macro', toks[j - 1].text, None, start, hstart, None, i)
    # type / use / const / static / global / broadcast ... : up to ';' at depth 0
    name = toks[i + 1].text if i + 1 < hi else ''
    j = i
    while j < hi:
        tx = toks[j].text
        if toks[j].kind == 'punct' and tx in OPEN:
            j = match_close(toks, j) + 1
            if toks[j - 1].text == '}' and kw not in ('const', 'static', 'type', 'use', 'let'):
                if j >= hi or toks[j].text != ';':
                    break
            continue
        if tx == ';' and toks[j].kind == 'punct':
            j += 1
            break
        j += 1
    return Item(kw, name, None, start, hstart, None, j)


def parse_items(toks, lo, hi, verus=False):
    """Parse the items in toks[lo:hi] (one nesting level)."""
    items = []
    i = lo
    while i < hi:
        it = parse_item(toks, i, hi, verus)
        if it is None:
            break
        items.append(it)
        i = it.end
    return items


def _sel_name(sel):
    ts = texts(tokenize(sel)[0])
    if ts[0] == 'impl':
        return 'impl', ' '.join(strip_generics(ts)).replace(' :: ', '::')
    return ts[0], ts[1]


def find_items(toks, path, verus=False, lo=0, hi=None):
    """All items matching path (a list of selectors such as 'impl Automaton for Str', 'fn accept',
    'struct Str', 'trait Automaton', 'mod tests', 'const X', 'type Y')."""
    if hi is None:
        hi = len(toks)
    kind, name = _sel_name(path[0])
    out = []
    for it in parse_items(toks, lo, hi, verus):
        if it.kind != kind or it.name != name:
            continue
        if len(path) == 1:
            out.append(it)
        elif it.body_open is not None:
            out.extend(find_items(toks, path[1:], verus, it.body_open + 1, it.end - 1))
    return out


def find_item(toks, path, verus=False, nth=None):
    c = find_items(toks, path, verus)
    if nth is not None:
        if nth >= len(c):
            raise LookupError('path %r: only %d matches' % (path, len(c)))
        return c[nth]
    if len(c) != 1:
        raise LookupError('path %r matched %d items' % (path, len(c)))
    return c[0]
