#!/usr/bin/env python3
"""Mechanical extractor: fills a Verus unit template with the function texts of /repo's working tree.

A template (contracts/<unit>.rs.tmpl) is a complete Verus file.  Every executable item that is meant to be
code of /repo is preceded by directive comment lines:

    //@SRC <file under /repo> :: <selector> [:: <selector>...] [#n]
    //@SUB <rule> `<from tokens>` => `<to tokens>` [x<count>|x*]
    //@HOIST <rule> <helper name> `<first tokens of the expression>`    (see rules.md, R11)

For such an item the extractor
  1. tokenizes the template item and marks every ghost token (contracts, proof blocks, ghost lets, loop
     invariants, verifier attributes, named results) - what is left is the template's executable text E_t;
  2. tokenizes the item of that path in the current working tree of /repo, applies the generic rules (R1-R4)
     and the declared substitutions, which gives E_s;
  3. if E_t == E_s token for token the template text is used as it is; otherwise the executable tokens of the
     generated item are taken from E_s and the ghost tokens are carried over at the positions a token diff
     assigns them (so a change inside a statement reaches the verifier with all contracts still attached);
  4. re-checks that erasing the ghost tokens of what it generated gives exactly E_s.

So the executable text Verus verifies is, token for token, the text of /repo after the numbered rules - by
construction and by the re-check, on every run.
"""
import difflib
import hashlib
import os
import re
import sys

sys.path.insert(0, os.path.dirname(os.path.abspath(__file__)))
from rtok import (Tok, tokenize, render, texts, match_close, parse_item, parse_items, find_item, find_items,
                  SPEC_CLAUSE_KW, find_fn_body_open, find_spec_body_open, skip_attrs)


class LostAnchor(Exception):
    pass


KEYWORDS = {'self', 'Self', 'let', 'mut', 'ref', 'fn', 'if', 'else', 'match', 'while', 'for', 'loop', 'return', 'break', 'continue', 'true', 'false', 'as', 'in', 'impl', 'pub', 'use', 'mod', 'struct', 'enum', 'trait', 'type', 'where', 'const', 'static', 'move', 'dyn', 'crate', 'super', 'unsafe'}
DROP_ATTRS = ('inline', 'doc', 'allow', 'must_use', 'cold', 'deprecated')
LOOP_CLAUSE_KW = {'invariant', 'invariant_except_break', 'ensures', 'decreases'}


def toks_of(text):
    return tokenize(text)[0]


# ----------------------------------------------------------------------------------------------------------
# ghost marking of a template item


def _mark(toks, a, b):
    for k in range(a, b):
        toks[k].ghost = True


def _stmt_end(toks, i, hi):
    """index one past the ';' ending the statement that starts at i (brackets skipped)"""
    j = i
    while j < hi:
        t = toks[j]
        if t.kind == 'punct':
            if t.text in '([{':
                j = match_close(toks, j) + 1
                continue
            if t.text == ';':
                return j + 1
        j += 1
    raise ValueError('no ; after line %d' % toks[i].line)


def _assert_end(toks, i, hi):
    """toks[i] == 'assert'. Returns index one past the ghost statement."""
    j = i + 1
    if toks[j].text == '(':
        j = match_close(toks, j) + 1
    else:
        # assert forall|..| ... [implies ...] by { }
        while j < hi and not (toks[j].kind == 'ident' and toks[j].text == 'by'):
            if toks[j].kind == 'punct' and toks[j].text in '([{':
                j = match_close(toks, j) + 1
                continue
            if toks[j].text == ';':
                return j + 1
            j += 1
    if j < hi and toks[j].kind == 'ident' and toks[j].text == 'by':
        j += 1
        if toks[j].text == '(':
            j = match_close(toks, j) + 1
        if j < hi and toks[j].kind == 'ident' and toks[j].text == 'requires':
            while toks[j].text != '{':
                if toks[j].text in '([':
                    j = match_close(toks, j)
                j += 1
        if j < hi and toks[j].text == '{':
            j = match_close(toks, j) + 1
    if j < hi and toks[j].text == ';':
        j += 1
    return j


def _loop_head(toks, i, hi):
    """toks[i] in while/for/loop. Marks the ghost parts of the head, returns index of the body '{'."""
    kw = toks[i].text
    j = i + 1
    if kw == 'for':
        # for PAT in [it:] EXPR
        while not (toks[j].kind == 'ident' and toks[j].text == 'in'):
            if toks[j].kind == 'punct' and toks[j].text in '([':
                j = match_close(toks, j)
            j += 1
        j += 1
        if toks[j].kind == 'ident' and toks[j + 1].text == ':':
            _mark(toks, j, j + 2)
            j += 2
    while j < hi:
        t = toks[j]
        if t.kind == 'punct' and t.text in '([':
            j = match_close(toks, j) + 1
            continue
        if t.kind == 'ident' and t.text in LOOP_CLAUSE_KW and toks[j - 1].text != '.':
            b = find_spec_body_open(toks, j, hi)
            _mark(toks, j, b)
            return b
        if t.kind == 'punct' and t.text == '{':
            return j
        j += 1
    raise ValueError('loop without body at line %d' % toks[i].line)


def _mark_body(toks, lo, hi):
    """mark ghost tokens inside toks[lo:hi] (a block body or any token run)"""
    i = lo
    while i < hi:
        t = toks[i]
        tx = t.text
        if t.kind == 'ident':
            nxt = toks[i + 1].text if i + 1 < hi else ''
            prev = toks[i - 1].text if i > 0 else ''
            if tx == 'proof' and nxt == '{':
                e = match_close(toks, i + 1) + 1
                _mark(toks, i, e)
                i = e
                continue
            if tx == 'let' and nxt in ('ghost', 'tracked'):
                e = _stmt_end(toks, i, hi)
                _mark(toks, i, e)
                i = e
                continue
            if tx == 'assert' and nxt != '!' and prev != '.':
                e = _assert_end(toks, i, hi)
                _mark(toks, i, e)
                i = e
                continue
            if tx in ('assume', 'reveal', 'reveal_with_fuel') and nxt == '(' and prev not in ('.', '::'):
                e = _stmt_end(toks, i, hi)
                _mark(toks, i, e)
                i = e
                continue
            if tx == 'broadcast' and nxt == 'use':
                e = _stmt_end(toks, i, hi)
                _mark(toks, i, e)
                i = e
                continue
            if tx in ('while', 'for', 'loop') and prev not in ('.', '::') and nxt != '<':
                # 'for' also occurs in `impl X for Y` / `for<'a>`, neither inside bodies we take
                b = _loop_head(toks, i, hi)
                i = i + 1
                # the head's executable tokens may contain blocks/closures: scan them too
                continue
        elif t.kind == 'punct' and tx == '->' and i + 4 < hi and toks[i + 1].text == '(' and toks[i + 2].kind == 'ident' \
                and toks[i + 3].text == ':':
            # closure with a named result and a contract:  |x: T| -> (r: U) ensures ... { body }
            c = match_close(toks, i + 1)
            toks[i + 1].ghost = True
            toks[i + 2].ghost = True
            toks[i + 3].ghost = True
            toks[c].ghost = True
            j = c + 1
            if j < hi and toks[j].kind == 'ident' and toks[j].text in SPEC_CLAUSE_KW:
                b = find_spec_body_open(toks, j, hi)
                _mark(toks, j, b)
            i = c + 1
            continue
        elif t.kind == 'punct' and tx == '#':
            j = i + 1
            if toks[j].text == '!':
                j += 1
            if toks[j].text == '[':
                e = match_close(toks, j) + 1
                name = toks[j + 1].text
                if name == 'verifier' or name == 'trigger' or name == 'auto':
                    _mark(toks, i, e)
                i = e
                continue
        i += 1


def mark_fn_ghost(toks, item):
    """item is a fn Item over toks (template). Marks ghost tokens in place."""
    i = item.start
    # attributes and visibility at the head are not compared (R3, R4)
    h = item.hstart
    _mark(toks, item.start, h)
    if toks[h].text == 'pub':
        e = h + 1
        if toks[e].text == '(':
            e = match_close(toks, e) + 1
        _mark(toks, h, e)
        h = e
    # locate 'fn'
    f = h
    while toks[f].text != 'fn':
        if toks[f].text in ('open', 'closed', 'spec', 'proof', 'exec'):
            toks[f].ghost = True
        f += 1
    # parameter list
    p = f + 2
    if toks[p].text == '<':
        depth = 0
        while True:
            if toks[p].text == '<':
                depth += 1
            elif toks[p].text == '>':
                depth -= 1
            elif toks[p].text == '>>':
                depth -= 2
            p += 1
            if depth <= 0:
                break
    assert toks[p].text == '(', 'param list expected at line %d, got %r' % (toks[p].line, toks[p].text)
    pe = match_close(toks, p)
    j = pe + 1
    end = item.body_open if item.body_open is not None else item.end - 1
    if toks[j].text == '->' and toks[j + 1].text == '(' and toks[j + 2].kind == 'ident' and toks[j + 3].text == ':':
        c = match_close(toks, j + 1)
        toks[j + 1].ghost = True
        toks[j + 2].ghost = True
        toks[j + 3].ghost = True
        toks[c].ghost = True
        j = c + 1
    # spec clauses
    k = j
    while k < end:
        if toks[k].kind == 'punct' and toks[k].text in '([{':
            k = match_close(toks, k) + 1
            continue
        if toks[k].kind == 'ident' and toks[k].text in SPEC_CLAUSE_KW:
            _mark(toks, k, end)
            break
        k += 1
    if item.body_open is not None:
        _mark_body(toks, item.body_open + 1, item.end - 1)


def mark_other_ghost(toks, item):
    """struct/enum/type/const: attributes and visibility are not compared"""
    _mark(toks, item.start, item.hstart)
    i = item.hstart
    while i < item.end:
        t = toks[i]
        if t.text == 'pub' and t.kind == 'ident':
            e = i + 1
            if toks[e].text == '(' and toks[e + 1].text in ('crate', 'super', 'in', 'self'):
                e = match_close(toks, e) + 1
            _mark(toks, i, e)
            i = e
            continue
        if t.text == '#' and toks[i + 1].text == '[':
            e = match_close(toks, i + 1) + 1
            _mark(toks, i, e)
            i = e
            continue
        i += 1


# ----------------------------------------------------------------------------------------------------------
# generic rules on source items


def T(text):
    """make free-standing tokens from text (single space trivia)"""
    ts = toks_of(text)
    for t in ts:
        t.trivia = ' '
    return ts


def strip_attrs_and_vis(toks, hits):
    """R3/R4 on a token list of one source item: drop listed attributes anywhere, every visibility qualifier in
    struct bodies and at the head."""
    out = []
    i = 0
    n = len(toks)
    while i < n:
        t = toks[i]
        if t.text == '#' and i + 1 < n and toks[i + 1].text == '[':
            e = match_close(toks, i + 1) + 1
            name = toks[i + 2].text
            if name in DROP_ATTRS or name == 'derive':
                hits['R3'] = hits.get('R3', 0) + 1
                i = e
                continue
        if t.kind == 'ident' and t.text == 'pub':
            e = i + 1
            if e < n and toks[e].text == '(' and toks[e + 1].text in ('crate', 'super', 'in', 'self'):
                e = match_close(toks, e) + 1
            hits['R4'] = hits.get('R4', 0) + 1
            i = e
            continue
        out.append(t)
        i += 1
    return out


def rule_r1_r2(toks, hits):
    """R1 (parameter patterns) and R2/R2' (for loops over references) on a source fn token list."""
    f = 0
    while toks[f].text != 'fn':
        f += 1
    p = f + 2
    if toks[p].text == '<':
        depth = 0
        while True:
            if toks[p].text == '<':
                depth += 1
            elif toks[p].text == '>':
                depth -= 1
            elif toks[p].text == '>>':
                depth -= 2
            p += 1
            if depth <= 0:
                break
    pe = match_close(toks, p)
    # split params at depth-0 commas
    out = toks[:p + 1]
    lets = []
    k = p + 1
    r8 = False
    if toks[k].text == 'mut' and toks[k + 1].text == 'self':
        r8 = True
        k += 1
    ordinal = 0
    pstart = True
    while k < pe:
        t = toks[k]
        if t.kind == 'punct' and t.text in '([{':
            e = match_close(toks, k)
            out.extend(toks[k:e + 1])
            k = e + 1
            pstart = False
            continue
        if t.kind == 'punct' and t.text == '<':
            pass
        if pstart:
            if t.text == '_' and toks[k + 1].text == ':':
                nt = Tok('ident', '_p%d' % ordinal, t.trivia, t.line)
                out.append(nt)
                hits['R1'] = hits.get('R1', 0) + 1
                k += 1
                pstart = False
                continue
            if t.text == '&' and toks[k + 1].kind == 'ident' and toks[k + 2].text == ':' and toks[k + 1].text not in ('self', 'mut'):
                name = toks[k + 1].text
                out.append(Tok('ident', name + '__r', t.trivia, t.line))
                lets.extend(T('let %s = *%s__r;' % (name, name)))
                hits['R1'] = hits.get('R1', 0) + 1
                k += 2
                pstart = False
                continue
        pstart = False
        if t.kind == 'punct' and t.text == ',':
            # depth 0 w.r.t. () [] {} ; generics commas inside <> are tolerated because a parameter never
            # starts with '_' ':' or '&' ident ':' inside a generic argument list
            pstart = True
            ordinal += 1
        out.append(t)
        k += 1
    # rest up to body
    b = find_fn_body_open(toks, f, len(toks), False)
    out.extend(toks[pe:b + 1])
    if toks[b].text == '{':
        out.extend(lets)
        body = toks[b + 1:]
        if r8:
            # R8: a `mut self` receiver is a mutable local: `self` + `let mut this = self;`, body renamed
            out.extend(T('let mut this = self;'))
            nb = []
            for kk, t in enumerate(body):
                if t.kind == 'ident' and t.text == 'self' and not (kk + 1 < len(body) and body[kk + 1].text == '::'):
                    nb.append(Tok('ident', 'this', t.trivia, t.line))
                else:
                    nb.append(t)
            body = nb
            hits['R8'] = hits.get('R8', 0) + 1
        out.extend(rule_r2(body, hits))
    return out


def rule_r2(toks, hits):
    out = []
    i = 0
    n = len(toks)
    while i < n:
        t = toks[i]
        if t.kind == 'ident' and t.text == 'for' and i + 3 < n:
            # for & x in E {   /  for x in & mut E {
            if toks[i + 1].text == '&' and toks[i + 2].kind == 'ident' and toks[i + 3].text == 'in':
                name = toks[i + 2].text
                j = i + 4
                k = j
                while not (toks[k].kind == 'punct' and toks[k].text == '{'):
                    if toks[k].kind == 'punct' and toks[k].text in '([':
                        k = match_close(toks, k)
                    k += 1
                out.append(t)
                out.extend(T('%s__r in (' % name))
                out.extend(toks[j:k])
                out.extend(T(').iter() {'))
                out.extend(T('let %s = *%s__r;' % (name, name)))
                hits['R2'] = hits.get('R2', 0) + 1
                i = k + 1
                continue
            if toks[i + 1].kind == 'ident' and toks[i + 2].text == 'in' and toks[i + 3].text == '&' and toks[i + 4].text == 'mut':
                j = i + 5
                k = j
                while not (toks[k].kind == 'punct' and toks[k].text == '{'):
                    if toks[k].kind == 'punct' and toks[k].text in '([':
                        k = match_close(toks, k)
                    k += 1
                out.extend(toks[i:i + 3])
                out.extend(T('('))
                out.extend(toks[j:k])
                out.extend(T(').iter_mut() {'))
                hits["R2'"] = hits.get("R2'", 0) + 1
                i = k + 1
                continue
        out.append(t)
        i += 1
    return out


def find_sub(hay, needle, start=0):
    n = len(needle)
    for i in range(start, len(hay) - n + 1):
        if hay[i:i + n] == needle:
            return i
    return -1


def apply_sub(toks, sub, hits):
    """sub = (rule, from_text, to_text, count) ; count int or '*'"""
    rule, frm, to, count = sub
    if re.search(r'\$[A-Z]\b', frm):
        return apply_sub_wild(toks, sub, hits)
    ft = texts(toks_of(frm))
    hay = texts(toks)
    pos = []
    s = 0
    while True:
        k = find_sub(hay, ft, s)
        if k < 0:
            break
        pos.append(k)
        s = k + len(ft)
    if count == '*':
        if not pos:
            raise LostAnchor('%s: `%s` not found' % (rule, frm))
    elif len(pos) != count:
        raise LostAnchor('%s: `%s` found %d times, expected %s' % (rule, frm, len(pos), count))
    out = []
    last = 0
    for k in pos:
        out.extend(toks[last:k])
        rep = T(to)
        if rep:
            rep[0].trivia = toks[k].trivia
        out.extend(rep)
        last = k + len(ft)
    out.extend(toks[last:])
    hits[rule] = hits.get(rule, 0) + len(pos)
    return out


def apply_sub_wild(toks, sub, hits):
    """a substitution whose from-text holds expression wildcards $E, $F, ...: each stands for the expression that starts
    there (through expr_end: up to a depth-0 ';' ',' or the unmatched closing bracket) and is copied, token for token,
    to where the to-text names it - so the rewrite fixes the shape around an expression, not the expression"""
    rule, frm, to, count = sub
    parts = re.split(r'(\$[A-Z])\b', frm)
    pat = []
    for x in parts:
        if re.fullmatch(r'\$[A-Z]', x):
            pat.append(('w', x))
        else:
            pat.extend(('t', y) for y in texts(toks_of(x)))
    assert pat and pat[0][0] == 't'
    lead = []
    for kd, v in pat:
        if kd != 't':
            break
        lead.append(v)
    hay = texts(toks)
    def match_at(k):
        cur = k
        caps = {}
        for kd, v in pat:
            if kd == 't':
                if cur >= len(toks) or hay[cur] != v:
                    return None
                cur += 1
            elif v in ('$B', '$C', '$D'):
                # a block wildcard: everything up to the brace that closes the block the pattern is standing in (may be nothing)
                e = cur
                depth = 0
                while e < len(toks):
                    tx = toks[e].text
                    if toks[e].kind == 'punct' and tx in '([{':
                        depth += 1
                    elif toks[e].kind == 'punct' and tx in ')]}':
                        if depth == 0:
                            break
                        depth -= 1
                    e += 1
                caps[v] = toks[cur:e]
                cur = e
            else:
                e = expr_end(toks, cur)
                if e == cur:
                    return None
                caps[v] = toks[cur:e]
                cur = e
        return cur, caps
    found = []
    s = 0
    while True:
        k = find_sub(hay, lead, s)
        if k < 0:
            break
        m = match_at(k)
        if m:
            found.append((k, m[0], m[1]))
            s = m[0]
        else:
            s = k + 1
    if count == '*':
        if not found:
            raise LostAnchor('%s: `%s` not found' % (rule, frm))
    elif len(found) != count:
        raise LostAnchor('%s: `%s` found %d times, expected %s' % (rule, frm, len(found), count))
    out = []
    last = 0
    for k, e, caps in found:
        out.extend(toks[last:k])
        rep = []
        for x in re.split(r'(\$[A-Z])\b', to):
            if re.fullmatch(r'\$[A-Z]', x):
                rep.extend(clone(caps[x]))
            else:
                rep.extend(T(x))
        if rep:
            rep[0].trivia = toks[k].trivia
        out.extend(rep)
        last = e
    out.extend(toks[last:])
    hits[rule] = hits.get(rule, 0) + len(found)
    return out


def expr_end(toks, i):
    """toks[i] starts an expression; returns index one past it: stops at a depth-0 ';' ',' or an unmatched
    closing bracket."""
    j = i
    n = len(toks)
    while j < n:
        t = toks[j]
        if t.kind == 'punct':
            if t.text in '([{':
                j = match_close(toks, j) + 1
                continue
            if t.text in (';', ',', ')', ']', '}'):
                return j
        j += 1
    return n


def apply_hoist(toks, hoist, hits):
    """hoist = (rule, helper_call_text, start_text, kind). The expression (kind 'expr') or statement (kind
    'stmt') that starts with start_text is cut out and replaced by helper_call_text; the cut text is returned
    for the helper's body."""
    rule, call, start, kind = hoist
    keep = kind.startswith('keep-')   # the text is only recorded (for the Kani harness) and stays where it is
    if keep:
        kind = kind[5:]
    st = texts(toks_of(start))
    hay = texts(toks)
    k = find_sub(hay, st)
    if k < 0:
        # the construct the hoist exists for is not in the source (any more): nothing to lift, the text goes to
        # the verifier as it is
        return toks, None
    if find_sub(hay, st, k + 1) >= 0:
        raise LostAnchor('%s: hoist anchor `%s` found more than once' % (rule, start))
    if kind == 'stmt':
        e = _stmt_end(toks, k, len(toks))
        if toks[e - 1].text != ';':
            raise LostAnchor('%s: statement end not found' % rule)
        cut = toks[k:e]
    elif kind == 'block':
        # a for/while/if statement: through the end of its first depth-0 brace group
        j = k
        while j < len(toks) and not (toks[j].kind == 'punct' and toks[j].text == '{'):
            if toks[j].kind == 'punct' and toks[j].text in '([':
                j = match_close(toks, j)
            j += 1
        e = match_close(toks, j) + 1
        cut = toks[k:e]
    else:
        e = expr_end(toks, k)
        cut = toks[k:e]
    if keep:
        return toks, clone(cut)
    rep = T(call)
    if rep:
        rep[0].trivia = toks[k].trivia
    hits[rule] = hits.get(rule, 0) + 1
    return toks[:k] + rep + toks[e:], cut


# ----------------------------------------------------------------------------------------------------------
# merge


def aligned_opcodes(a, b):
    """difflib's opcodes, with every pure deletion / pure insertion slid left or right, as long as that is the same edit,
    until it starts right after a statement boundary: `s1; X; s2` minus `X;` is reported as the removal of the statement
    `X;`, not of a token run like `; X` or `. f(); x` that straddles two statements (and the annotations between them)"""
    ops = [list(o) for o in difflib.SequenceMatcher(a=a, b=b, autojunk=False).get_opcodes()]
    B = (';', '{', '}')
    for k, o in enumerate(ops):
        tag = o[0]
        if tag not in ('delete', 'insert'):
            continue
        seq, lo, hi = (a, o[1], o[2]) if tag == 'delete' else (b, o[3], o[4])
        if lo == 0 or seq[lo - 1] in B:
            continue
        prev_eq = ops[k - 1] if k > 0 and ops[k - 1][0] == 'equal' else None
        next_eq = ops[k + 1] if k + 1 < len(ops) and ops[k + 1][0] == 'equal' else None
        if not prev_eq or not next_eq:
            continue
        cands = []
        # to the left: the run [lo-s, hi-s) is the same edit while seq[lo-s'] == seq[hi-s'] for s' = 1..s
        if prev_eq:
            room = prev_eq[2] - prev_eq[1] - 1
            s = 0
            while s < room and seq[lo - s - 1] == seq[hi - s - 1]:
                s += 1
                if lo - s - 1 < 0 or seq[lo - s - 1] in B:
                    cands.append(-s)
                    break
        # to the right: while seq[lo+s'] == seq[hi+s'] for s' = 0..s-1
        if next_eq:
            room = next_eq[2] - next_eq[1] - 1
            s = 0
            while s < room and hi + s < len(seq) and seq[lo + s] == seq[hi + s]:
                s += 1
                if seq[lo + s - 1] in B:
                    cands.append(s)
                    break
        if not cands:
            continue
        s = min(cands, key=abs)
        if prev_eq:
            prev_eq[2] += s
            prev_eq[4] += s
        if next_eq:
            next_eq[1] += s
            next_eq[3] += s
        o[1] += s
        o[2] += s
        o[3] += s
        o[4] += s
    return [tuple(o) for o in ops]


def merge(tmpl_toks, src_exec):
    """tmpl_toks: tokens of the template item with .ghost flags; src_exec: tokens E_s.
    Returns the merged token list (ghost tokens kept, executable tokens from the source)."""
    exec_idx = [k for k, t in enumerate(tmpl_toks) if not t.ghost]
    a = [tmpl_toks[k].text for k in exec_idx]
    b = [t.text for t in src_exec]
    opcodes = aligned_opcodes(a, b)
    out = []
    pos = 0  # next template token index to emit
    prev_changed = False
    last_exec = '{'
    merge.perturbed = False   # a proof statement was dropped, or stands right next to changed executable text
    merge.dropped = False     # a proof statement was dropped
    GST = ('proof', 'assert', 'assume', 'reveal')
    def ghost_stmt(ts):
        return any(t.ghost and (t.text in GST or (t.text == 'let' and k + 1 < len(ts) and ts[k + 1].text == 'ghost')) for k, t in enumerate(ts))
    for tag, i1, i2, j1, j2 in opcodes:
        if tag == 'equal':
            stop = exec_idx[i2 - 1] + 1
            first = exec_idx[i1]
            lead = tmpl_toks[pos:first]
            if prev_changed and ghost_stmt(lead):
                merge.perturbed = True
            # ghost *statements* (proof blocks, ghost lets, asserts) that stood before the first matched token: after a
            # change they are kept only if they still land on a statement boundary of the generated text - otherwise the
            # statement they were written for is gone and they would end up inside an expression (dropped: dropping
            # ghost code can only make an obligation harder to prove)
            if prev_changed and lead and lead[0].text in ('proof', 'let', 'assert', 'assume', 'reveal') and last_exec not in (';', '{', '}'):
                if ghost_stmt(lead):
                    merge.dropped = True
                lead = []
            out.extend(lead)
            out.extend(tmpl_toks[first:stop])
            pos = stop
            last_exec = a[i2 - 1]
            prev_changed = False
        else:
            prev_changed = True
            if j2 > j1:
                last_exec = b[j2 - 1]
            # leading ghost tokens before the first affected exec token
            if i1 < len(exec_idx):
                first = exec_idx[i1]
            else:
                first = len(tmpl_toks)
            if i2 > i1:
                stop = exec_idx[i2 - 1] + 1
            else:
                stop = pos
                # pure insertion: place before the ghost tokens that precede the next exec token? keep ghost
                # chunks with the following statement: emit insertion right here (after previous exec token)
            if ghost_stmt(tmpl_toks[pos:first]) or (i2 > i1 and ghost_stmt(tmpl_toks[first:exec_idx[i2 - 1] + 1])):
                merge.perturbed = True
            if i2 > i1 and ghost_stmt(tmpl_toks[first:exec_idx[i2 - 1] + 1]):
                merge.dropped = True
            # ghost tokens that sit before the first deleted exec token stay in front
            lead = [t for t in tmpl_toks[pos:first] if t.ghost] if i2 > i1 else []
            if i2 == i1:
                # pure insertion: after a statement boundary it belongs to the statement that follows, so the
                # ghost tokens standing between the two statements come first
                prev_exec = a[i1 - 1] if i1 > 0 else '{'
                if prev_exec in (';', '{', '}'):
                    lead = tmpl_toks[pos:first]
                    pos = first
            out.extend(lead)
            for t in src_exec[j1:j2]:
                nt = Tok(t.kind, t.text, t.trivia if t.trivia else ' ', t.line)
                out.append(nt)
            if i2 > i1:
                # ghost code that stood between the replaced executable tokens has lost the statements it was
                # written for: it is dropped (dropping ghost code can only make an obligation harder to prove)
                pos = stop
    out.extend(tmpl_toks[pos:])
    # a local (or parameter) renamed consistently: the ghost code that mentions it follows the new name. Only when
    # the old name is gone from the executable text, the new one did not occur in the template, and every changed
    # occurrence maps the same way - otherwise nothing is renamed and the verifier decides (or rejects) as is.
    ren = {}
    bad = set()
    conflict = set()   # one old name, several new ones (two variables of the same name renamed apart)
    multi = {}
    hard_bad = set()
    for tag, i1, i2, j1, j2 in opcodes:
        if tag == 'replace' and i2 - i1 == j2 - j1:
            for k in range(i2 - i1):
                x, y = a[i1 + k], b[j1 + k]
                if x != y:
                    if i1 + k > 0 and a[i1 + k - 1] == '.':
                        bad.add(x)   # a field or method name changed: not a rename of a local
                        hard_bad.add(x)
                    elif re.match(r'^[A-Za-z_][A-Za-z0-9_]*$', x) and re.match(r'^[A-Za-z_][A-Za-z0-9_]*$', y) and tmpl_toks[exec_idx[i1 + k]].kind == 'ident':
                        if ren.get(x, y) != y:
                            bad.add(x)
                            conflict.add(x)
                        ren[x] = y
                        multi.setdefault(x, set()).add(y)
                    else:
                        bad.add(x)
                        hard_bad.add(x)
    # names of locals: identifiers that are not field or method names (not preceded by `.`)
    def is_field(ts, k):
        # `.name`, or `name:` inside a struct literal / pattern (`{ name: ..` / `, name: ..`)
        return (k > 0 and ts[k - 1] == '.') or (k > 0 and k + 1 < len(ts) and ts[k + 1] == ':' and ts[k - 1] in ('{', ','))
    sa = set(x for k, x in enumerate(a) if not is_field(a, k))
    sb = set(x for k, x in enumerate(b) if not is_field(b, k))
    ren_all = dict(ren)
    ren = {x: y for x, y in ren.items() if x not in bad and x not in sb and y not in sa and x not in KEYWORDS and y not in KEYWORDS}
    # a rename keeps the number of occurrences (otherwise the new name is another variable that happens to stand where the old
    # one was declared)
    cnt_a = lambda x: sum(1 for k, z in enumerate(a) if z == x and not is_field(a, k))
    cnt_b = lambda y: sum(1 for k, z in enumerate(b) if z == y and not is_field(b, k))
    ren = {x: y for x, y in ren.items() if cnt_a(x) == cnt_b(y)}
    if ren:
        for k, t in enumerate(out):
            if getattr(t, 'ghost', False) and t.kind == 'ident' and t.text in ren and not is_field([z.text for z in out[max(0, k - 1):k + 2]], 1 if k > 0 else 0):
                t.text = ren[t.text]
    # a name used for two variables (a loop variable `t` and, further down, an `if let Some(ref mut t)`) of which one was renamed:
    # the old name is still there, so the rename is followed by position - a ghost occurrence takes the name the nearest
    # executable occurrence before it (failing that, after it) now has
    scoped = {x: ys for x, ys in multi.items() if x not in ren and x not in hard_bad and (x in sb or x in conflict) and not (ys & sa) and x not in KEYWORDS
              and not (ys & KEYWORDS) and cnt_a(x) == sum(cnt_b(y) for y in ys) + cnt_b(x)}
    if scoped:
        txt = [z.text for z in out]
        def nearest(k, x, ys):
            for rng in (range(k - 1, -1, -1), range(k + 1, len(out))):
                for q in rng:
                    z = out[q]
                    if not getattr(z, 'ghost', False) and z.kind == 'ident' and (z.text == x or z.text in ys) and not is_field(txt, q):
                        return z.text
            return x
        todo = []
        for k, t in enumerate(out):
            if getattr(t, 'ghost', False) and t.kind == 'ident' and t.text in scoped and not is_field(txt, k):
                todo.append((k, nearest(k, t.text, scoped[t.text])))
        for k, name in todo:
            out[k].text = name
    return out


# ----------------------------------------------------------------------------------------------------------
# template processing

DIRECTIVE = re.compile(r'^[ \t]*//@(\w+)[ \t]*(.*)$', re.M)
BT = re.compile(r'`([^`]*)`')


def parse_directives(trivia):
    ds = []
    for m in DIRECTIVE.finditer(trivia):
        ds.append((m.group(1), m.group(2).strip()))
    return ds


class Unit:
    def __init__(self, name, tmpl_path, repo):
        self.name = name
        self.tmpl_path = tmpl_path
        self.repo = repo
        self.items = []       # per SRC item: dict(path, file, status, hits, line span)
        self.hits = {}
        self.assumes = []
        self.src_files = {}
        self.hoists = []
        self.includes = []
        self.contract_links = []
        self.caps_idents = set()
        self.text = None


_src_cache = {}


def source_tokens(repo, rel):
    key = (repo, rel)
    if key not in _src_cache:
        p = os.path.join(repo, rel)
        if not os.path.exists(p):
            raise LostAnchor('source file %s missing' % rel)
        s = open(p).read()
        _src_cache[key] = (tokenize(s)[0], hashlib.sha256(s.encode()).hexdigest())
    return _src_cache[key]


def clone(toks):
    out = []
    for t in toks:
        nt = Tok(t.kind, t.text, t.trivia, t.line)
        out.append(nt)
    return out


def strip_comments(trivia):
    """keep only whitespace of a source trivia (comments of /repo are not carried over)"""
    s = re.sub(r'//[^\n]*', '', trivia)
    s = re.sub(r'/\*.*?\*/', '', s, flags=re.S)
    s = re.sub(r'[ \t]+\n', '\n', s)
    s = re.sub(r'\n{2,}', '\n', s)
    return s if s else ''


_tmpl_cache = {}
# the statement skeleton of a function body: an edit that leaves it alone keeps every proof annotation on the statement
# it was written for; an edit that changes it (statements added, removed, moved; branches swapped) may leave annotations
# behind, so a proof that then fails says nothing about the code
NEUTRAL = {'!', '(', ')', 'return', ';', ',', '{', '}', 'let', 'mut', '=', ':', 'else', 'ref', '&', '*', 'bool', 'usize', 'u8', 'u32', 'u64'}


def content_bag(ts):
    """the tokens of a function body that carry meaning beyond arrangement: operators, literals, field / method / function
    / type names - without local variable names, punctuation, `!`, `return`, `else` and type annotations of primitives. Two
    versions with the same bag differ only in how the same material is arranged (statements or operands reordered, branches
    flipped, temporaries introduced or inlined, locals renamed)."""
    bag = {}
    for k, x in enumerate(ts):
        if x in NEUTRAL:
            continue
        if re.match(r'^[a-z_][a-z0-9_]*$', x) and x not in KEYWORDS:
            prev = ts[k - 1] if k > 0 else ''
            nxt = ts[k + 1] if k + 1 < len(ts) else ''
            if prev not in ('.', '::') and nxt not in ('(', '::', '!'):
                continue   # a local variable or parameter name
        bag[x] = bag.get(x, 0) + 1
    return bag


def local_substituted(et, es):
    """the edit replaced local names by other local names at some places and touched nothing else, and it is not a
    consistent renaming: a different variable is used there - nothing was rearranged, so this is not the harmless kind"""
    if len(et) != len(es):
        return False
    fwd = {}
    diff = 0
    def is_local(ts, k):
        x = ts[k]
        if not re.match(r'^[a-z_][a-z0-9_]*$', x) or x in KEYWORDS:
            return False
        prev = ts[k - 1] if k > 0 else ''
        nxt = ts[k + 1] if k + 1 < len(ts) else ''
        return prev not in ('.', '::') and nxt not in ('(', '::', '!')
    for k, (a, b) in enumerate(zip(et, es)):
        if a != b:
            if not (is_local(et, k) and is_local(es, k)):
                return False     # something other than a local differs: not this kind of edit
            diff += 1
        if is_local(et, k):
            fwd.setdefault(a, set()).add(b)
    if not diff:
        return False
    inconsistent = any(len(v) > 1 for v in fwd.values())
    images = [next(iter(v)) for v in fwd.values() if len(v) == 1]
    return inconsistent or len(images) != len(set(images))


# ---- statement-level view of a body (plain token texts), for the "was anything moved across an exit" test ----
EXITS = {'return', '?', 'break', 'continue'}
BLOCK_HEADS = {'if', 'while', 'for', 'loop', 'match', 'unsafe'}


def _close_of(ts, i):
    """ts[i] is an opening bracket: index of its partner"""
    pairs = {'(': ')', '[': ']', '{': '}'}
    o, c = ts[i], pairs[ts[i]]
    d = 0
    for k in range(i, len(ts)):
        if ts[k] == o:
            d += 1
        elif ts[k] == c:
            d -= 1
            if d == 0:
                return k
    return len(ts) - 1


def split_statements(ts):
    """ts: the tokens between a block's braces. Returns the list of statements (token lists): a simple statement runs to its
    depth-0 `;`; a statement that starts with if / while / for / loop / match / unsafe / `{` runs to the end of its last block
    (else-chains included, an optional `;` taken along); what is left at the end is the tail expression"""
    out = []
    i = 0
    n = len(ts)
    while i < n:
        j = i
        if ts[i] in BLOCK_HEADS or ts[i] == '{':
            # find the first depth-0 `{`, close it, follow `else`
            while True:
                while j < n and ts[j] != '{':
                    if ts[j] in '([':
                        j = _close_of(ts, j)
                    j += 1
                if j >= n:
                    break
                j = _close_of(ts, j) + 1
                if j < n and ts[j] == 'else':
                    j += 1
                    continue
                break
            if j < n and ts[j] == ';':
                j += 1
            # a block used as the head of a longer expression (`if c { a } else { b }.foo();`, `match x {..}?;`): take it to the `;`
            elif j < n and ts[j] in ('.', '?'):
                while j < n and ts[j] != ';':
                    if ts[j] in '([{':
                        j = _close_of(ts, j)
                    j += 1
                j += 1
        else:
            while j < n and ts[j] != ';':
                if ts[j] in '([{':
                    j = _close_of(ts, j)
                j += 1
            j += 1
        out.append(ts[i:min(j, n)])
        i = j
    return out


def _norm_stmt(st, mask_literals=False):
    """a statement's tokens with local names blanked (so a renamed local does not make it another statement)"""
    r = []
    for k, x in enumerate(st):
        if re.match(r'^[a-z_][a-z0-9_]*$', x) and x not in KEYWORDS:
            prev = st[k - 1] if k > 0 else ''
            nxt = st[k + 1] if k + 1 < len(st) else ''
            if prev not in ('.', '::') and nxt not in ('(', '::', '!'):
                r.append('_')
                continue
        if mask_literals and (x[:1].isdigit() or x[:1] in ('"', "'") or x[:2] in ('b"', "b'")):
            r.append('#')
            continue
        r.append(x)
    return ' '.join(r)


def _blocks_of(ts):
    """every block of a body, outermost first, as its list of statements"""
    res = []
    def walk(body):
        sts = split_statements(body)
        res.append(sts)
        for st in sts:
            k = 0
            while k < len(st):
                if st[k] == '{':
                    c = _close_of(st, k)
                    walk(st[k + 1:c])
                    k = c + 1
                else:
                    k += 1
    walk(ts)
    return res


def crossing_detected(et, es):
    """True when the edit is positively one of two things no harmless rearrangement is: (1) in some block the same statements
    stand in another order and a pair that changed places includes a statement holding an early exit (`return`, `?`, `break`,
    `continue`) - something now runs on paths it did not run on, or two fallible steps swapped; (2) the statements are the
    same once literals are masked but not with them - literals went from one statement to another."""
    def body(ts):
        # tokens between the function's outermost braces
        try:
            k = ts.index('{')
        except ValueError:
            return ts
        return ts[k + 1:_close_of(ts, k)]
    ba, bb = _blocks_of(body(et)), _blocks_of(body(es))
    # (2) literals exchanged between statements
    # (locals are numbered by first occurrence here, not blanked: `let len = {.. 16 ..}` and `let root_addr = {.. 8 ..}` that
    # exchange their literals are two different statements each)
    def alpha(ts):
        names = {}
        r = []
        for k, x in enumerate(ts):
            if re.match(r'^[a-z_][a-z0-9_]*$', x) and x not in KEYWORDS:
                prev = ts[k - 1] if k > 0 else ''
                nxt = ts[k + 1] if k + 1 < len(ts) else ''
                if prev not in ('.', '::') and nxt not in ('(', '::', '!'):
                    r.append(names.setdefault(x, 'v%d' % len(names)))
                    continue
            r.append(x)
        return r
    def masked(ts):
        return ['#' if (x[:1].isdigit() or x[:1] in ('"', "'") or x[:2] in ('b"', "b'")) else x for x in ts]
    fa = [' '.join(st) for st in split_statements(alpha(body(et)))]
    fb = [' '.join(st) for st in split_statements(alpha(body(es)))]
    ma = [' '.join(st) for st in split_statements(masked(alpha(body(et))))]
    mb = [' '.join(st) for st in split_statements(masked(alpha(body(es))))]
    if sorted(ma) == sorted(mb) and sorted(fa) != sorted(fb):
        return True
    # (1) a permutation inside a block that moves something across an exit
    from collections import Counter
    used = set()
    for sa in ba:
        ka = [_norm_stmt(st) for st in sa]
        if len(ka) < 2:
            continue
        for q, sb_ in enumerate(bb):
            if q in used:
                continue
            kb = [_norm_stmt(st) for st in sb_]
            if ka != kb and Counter(ka) == Counter(kb) and len(set(ka)) == len(ka):
                used.add(q)
                posb = {x: i for i, x in enumerate(kb)}
                exit_a = [bool(EXITS & set(st)) for st in sa]
                for i in range(len(ka)):
                    for j in range(i + 1, len(ka)):
                        if posb[ka[i]] > posb[ka[j]] and (exit_a[i] or exit_a[j]):
                            return True
                break
    return False


def whole_statement_edit(et, es):
    """True when the two bodies differ only by whole simple statements (`...;` without a block of their own) taken out, put in or moved
    inside the blocks they stand in - every other statement, and every block head, is token for token the same and in the same
    order. (A move across an early exit is such an edit; a renamed local, a changed operand, a flipped branch are not.)"""
    def body(ts):
        try:
            k = ts.index('{')
        except ValueError:
            return None
        return ts[k + 1:_close_of(ts, k)]
    ba, bb = body(et), body(es)
    if ba is None or bb is None or et[:et.index('{')] != es[:es.index('{')]:
        return False
    changed = [False]
    def same(xa, xb):
        sa, sb = split_statements(xa), split_statements(xb)
        simple = lambda st: '{' not in st
        # the compound statements (those with blocks) and the tail expression must pair up one to one, in order
        ca = [st for st in sa if not simple(st) or not st or st[-1] != ';']
        cb = [st for st in sb if not simple(st) or not st or st[-1] != ';']
        if len(ca) != len(cb):
            return False
        ka = [' '.join(st) for st in sa if simple(st) and st and st[-1] == ';']
        kb = [' '.join(st) for st in sb if simple(st) and st and st[-1] == ';']
        # the same, with the compound statements as numbered place holders: a simple statement that moved past one shows here
        def seq(ss):
            r, n = [], 0
            for st in ss:
                if simple(st) and st and st[-1] == ';':
                    r.append(' '.join(st))
                else:
                    r.append('<%d>' % n)
                    n += 1
            return r
        if ka != kb or seq(sa) != seq(sb):
            from collections import Counter
            ca_, cb_ = Counter(ka), Counter(kb)
            removed, inserted = ca_ - cb_, cb_ - ca_
            # statements taken out, or put in, or (same multiset) moved - but not one statement replaced by another, which is a
            # statement that was changed
            if removed and inserted:
                return False
            changed[0] = True
        for x, y in zip(ca, cb):
            if x == y:
                continue
            if simple(x) or simple(y):
                return False          # a tail expression changed
            # same head tokens up to each block, then recurse into the blocks
            i = j = 0
            while i < len(x) and j < len(y):
                if x[i] == '{' and y[j] == '{':
                    ci, cj = _close_of(x, i), _close_of(y, j)
                    if not same(x[i + 1:ci], y[j + 1:cj]):
                        return False
                    i, j = ci + 1, cj + 1
                elif x[i] == y[j]:
                    i += 1
                    j += 1
                else:
                    return False
            if i != len(x) or j != len(y):
                return False
        return True
    return same(ba, bb) and changed[0]


SKELETON = {';', '{', '}', 'if', 'else', 'while', 'for', 'loop', 'match', 'return', 'let', '=>', 'break', 'continue', '?'}


def sig_tokens(toks, item):
    """signature and contract of a fn item: tokens from 'fn' up to the body, visibility dropped"""
    k = item.hstart
    while toks[k].text != 'fn':
        k += 1
    end = item.body_open if item.body_open is not None else item.end - 1
    ts = [t.text for t in toks[k:end]]
    while ts and ts[-1] in (',', ';'):
        ts.pop()
    return ts


def check_contract_of(unit, toks, i, n, arg, lemma=False):
    """//@CONTRACT-OF <unit> :: <item path as in that unit's //@SRC line, without the file>
    The assumed (external_body) declaration that follows must carry, token for token, the signature and
    contract under which the named unit verifies the real function."""
    other, path = [x.strip() for x in arg.split('::', 1)]
    base = os.path.dirname(unit.tmpl_path)
    if other not in _tmpl_cache:
        u2 = Unit(other, os.path.join(base, other + '.rs.tmpl'), unit.repo)
        text = expand_includes(open(u2.tmpl_path).read(), base, u2)
        _tmpl_cache[other] = tokenize(text)[0]
    ot = _tmpl_cache[other]
    want = None
    if lemma:
        # //@LEMMA-OF <unit> :: <name>: the lemma is stated (external_body) here and proved under that name there
        for k, t in enumerate(ot):
            if t.text == 'fn' and ot[k + 1].text == path and ot[k - 1].text == 'proof':
                j = k - 1
                while ot[j - 1].text in ('pub', 'broadcast'):
                    j -= 1
                it2 = parse_item(ot, j, len(ot), True)
                if it2.body_open is not None and not any(x.text == 'external_body' for x in ot[max(0, j - 8):j]):
                    want = it2
    for k, t in enumerate(ot):
        if lemma:
            break
        if '//@SRC' in t.trivia:
            for kd, a2 in parse_directives(t.trivia):
                if kd == 'SRC' and a2.split('::', 1)[1].strip() == path:
                    want = parse_item(ot, k, len(ot), True)
    if want is None:
        raise LostAnchor('CONTRACT-OF %s: no such verified item' % arg)
    mine = parse_item(toks, i, n, True)
    a = sig_tokens(ot, want)
    b = sig_tokens(toks, mine)
    if a != b:
        raise LostAnchor('CONTRACT-OF %s: assumed contract differs from the verified one: %s' % (arg, first_diff(b, a)))
    unit.contract_links.append(arg)


def split_contract(ts):
    """signature tokens (up to the first requires/ensures at depth 0) and the clause lists of a fn head.
    Clauses are split at top-level commas; brackets and the binder bars of forall/exists/choose nest."""
    head, req, ens, other = [], [], [], []
    cur = head
    clause = None
    depth = 0
    bars = []          # depth at which a quantifier binder is open
    k = 0
    def flush():
        nonlocal clause
        if clause:
            cur.append(clause)
        clause = None
    while k < len(ts):
        t = ts[k]
        if depth == 0 and not bars and t in ('requires', 'ensures', 'decreases', 'recommends') and cur is not None:
            if cur is head:
                pass
            else:
                flush()
            cur = {'requires': req, 'ensures': ens}.get(t, other)
            clause = []
            k += 1
            continue
        if cur is head:
            head.append(t)
            # generics / parameter lists of the head are kept as they are
            k += 1
            continue
        if t in ('(', '[', '{'):
            depth += 1
        elif t in (')', ']', '}'):
            depth -= 1
        elif t == '|' and k > 0 and ts[k - 1] in ('forall', 'exists', 'choose'):
            bars.append(depth)
        elif t == '|' and bars and bars[-1] == depth:
            bars.pop()
        if t == ',' and depth == 0 and not bars:
            flush()
            clause = []
        else:
            clause.append(t)
        k += 1
    if cur is not head:
        flush()
    return head, [c for c in req if c], [c for c in ens if c], [c for c in other if c]


def check_contract_weaker(unit, toks, i, n, arg):
    """//@CONTRACT-WEAKER-THAN <unit> :: <item path>: the assumed declaration has the verified item's signature, every
    `ensures` clause it states is, token for token, an `ensures` clause the named unit verifies on the real body, and
    every `requires` clause of the verified contract is among the assumed ones (so what is assumed follows from
    what is proved; spec functions the clauses mention may be uninterpreted on the assuming side)."""
    other, path = [x.strip() for x in arg.split('::', 1)]
    base = os.path.dirname(unit.tmpl_path)
    if other not in _tmpl_cache:
        u2 = Unit(other, os.path.join(base, other + '.rs.tmpl'), unit.repo)
        text = expand_includes(open(u2.tmpl_path).read(), base, u2)
        _tmpl_cache[other] = tokenize(text)[0]
    ot = _tmpl_cache[other]
    want = None
    for k, t in enumerate(ot):
        if '//@SRC' in t.trivia:
            for kd, a2 in parse_directives(t.trivia):
                if kd == 'SRC' and a2.split('::', 1)[1].strip() == path:
                    want = parse_item(ot, k, len(ot), True)
    if want is None:
        raise LostAnchor('CONTRACT-WEAKER-THAN %s: no such verified item' % arg)
    mine = parse_item(toks, i, n, True)
    vh, vreq, vens, voth = split_contract(sig_tokens(ot, want))
    ah, areq, aens, aoth = split_contract(sig_tokens(toks, mine))
    if vh != ah:
        raise LostAnchor('CONTRACT-WEAKER-THAN %s: signature differs: %s' % (arg, first_diff(ah, vh)))
    for c in aens:
        if c not in vens:
            raise LostAnchor('CONTRACT-WEAKER-THAN %s: assumed ensures clause is not verified there: %s' % (arg, ' '.join(c)[:160]))
    for c in vreq:
        if c not in areq:
            raise LostAnchor('CONTRACT-WEAKER-THAN %s: verified requires clause is not demanded here: %s' % (arg, ' '.join(c)[:160]))
    if not aens:
        raise LostAnchor('CONTRACT-WEAKER-THAN %s: nothing assumed' % arg)
    unit.contract_links.append(arg + ' (clause subset: %d of %d ensures)' % (len(aens), len(vens)))


INCLUDE = re.compile(r'^[ \t]*//@INCLUDE[ \t]+(\S+)[ \t]*$', re.M)


def expand_includes(text, base, unit, depth=0):
    """//@INCLUDE <file relative to contracts/>: textual inclusion of shared specification text"""
    def rep(m):
        p = os.path.join(base, m.group(1))
        unit.includes.append(m.group(1))
        return '// ---- begin include %s\n%s\n// ---- end include %s' % (
            m.group(1), expand_includes(open(p).read(), base, unit, depth + 1), m.group(1))
    if depth > 5:
        raise ValueError('include depth')
    return INCLUDE.sub(rep, text)


def generate(unit, canary=False, expand=True):
    """Fill the template. Sets unit.text and bookkeeping. Raises LostAnchor."""
    tmpl = open(unit.tmpl_path).read()
    if expand:
        tmpl = expand_includes(tmpl, os.path.dirname(unit.tmpl_path), unit)
    toks, tail = tokenize(tmpl)
    n = len(toks)
    out_chunks = []
    pos = 0
    i = 0
    hoist_bodies = {}
    pending_fill = []   # (helper name) -> filled later
    while i < n:
        ds = parse_directives(toks[i].trivia) if '//@' in toks[i].trivia else []
        kinds = [d[0] for d in ds]
        for kd, arg in ds:
            if kd == 'CONTRACT-OF':
                check_contract_of(unit, toks, i, n, arg)
            elif kd == 'LEMMA-OF':
                check_contract_of(unit, toks, i, n, arg, lemma=True)
            elif kd == 'CONTRACT-WEAKER-THAN':
                check_contract_weaker(unit, toks, i, n, arg)
        if 'SRC' in kinds:
            src_arg = [d[1] for d in ds if d[0] == 'SRC'][0]
            nth = None
            m = re.search(r'#(\d+)\s*$', src_arg)
            if m:
                nth = int(m.group(1))
                src_arg = src_arg[:m.start()].strip()
            parts = [x.strip() for x in src_arg.split('::', 1)]
            rel = parts[0]
            path = [x.strip() for x in re.split(r'\s::\s', parts[1])]
            subs = []
            hoists = []
            for kd, arg in ds:
                if kd == 'SUB':
                    rule = arg.split()[0]
                    bts = BT.findall(arg)
                    if len(bts) != 2:
                        raise ValueError('bad SUB directive: ' + arg)
                    cm = re.search(r'x(\d+|\*)\s*$', arg)
                    count = 1
                    if cm:
                        count = '*' if cm.group(1) == '*' else int(cm.group(1))
                    subs.append((rule, bts[0], bts[1], count))
                elif kd == 'HOIST':
                    # //@HOIST R11 expr|stmt helper `call text` `start tokens`
                    w = arg.split()
                    bts = BT.findall(arg)
                    hoists.append((w[0], bts[0], bts[1], w[1], w[2]))
            item = parse_item(toks, i, n, True)
            stoks_all, sha = source_tokens(unit.repo, rel)
            unit.src_files[rel] = sha
            try:
                sitem = find_item(stoks_all, path, False, nth)
            except LookupError as e:
                raise LostAnchor('%s: %s' % (rel, e))
            stoks = clone(stoks_all[sitem.start:sitem.end])
            for t in stoks:
                t.trivia = strip_comments(t.trivia)
            hits = {}
            stoks = strip_attrs_and_vis(stoks, hits) if item.kind != 'fn' else strip_fn_head(stoks, hits)
            if item.kind == 'fn':
                stoks = rule_r1_r2(stoks, hits)
            for h in hoists:
                stoks, cut = apply_hoist(stoks, (h[0], h[1], h[2], h[3]), hits)
                if cut is None:
                    hoist_bodies.setdefault(h[4], [])
                    continue
                hoist_bodies[h[4]] = hoist_bodies.get(h[4], []) + cut
                unit.hoists.append({'helper': h[4], 'rule': h[0], 'from': rel + ' :: ' + ' :: '.join(path),
                                    'text': render(cut).strip()})
            for s in subs:
                stoks = apply_sub(stoks, s, hits)
            ttoks = toks[item.start:item.end]
            if item.kind == 'fn':
                mark_fn_ghost(toks, item)
            else:
                mark_other_ghost(toks, item)
            # the directive comments live in the trivia of the first token: keep them
            et = [t.text for t in ttoks if not t.ghost]
            es = [t.text for t in stoks]
            if item.kind != 'fn':
                et = drop_trailing_commas(et)
                es = drop_trailing_commas(es)
            status = 'identical'
            if et != es and os.environ.get('VX_DEBUG'):
                sm = difflib.SequenceMatcher(a=et, b=es, autojunk=False)
                for tag, i1, i2, j1, j2 in sm.get_opcodes():
                    if tag != 'equal':
                        print('  DIFF %s: template[%s] source[%s]' % (' :: '.join(path), ' '.join(et[max(0,i1-3):i2+3]), ' '.join(es[max(0,j1-3):j2+3])), file=sys.stderr)
            if et == es:
                gen = ttoks
            else:
                status = 'merged'
                if item.kind == 'const':
                    gen = rebuild_const(toks, item, stoks)
                elif item.kind not in ('fn', 'struct'):
                    raise LostAnchor('%s :: %s: definition differs from the template (only functions and structs are merged): %s'
                                     % (rel, ' :: '.join(path), first_diff(et, es)))
                elif item.kind == 'struct':
                    gen = rebuild_struct(toks, item, stoks)
                else:
                    gen = merge(ttoks, stoks)
                    perturbed = merge.perturbed
                    dropped = merge.dropped
                if gen and gen[0] is not ttoks[0]:
                    gen[0].trivia = ttoks[0].trivia
                eg = [t.text for t in gen if not t.ghost]
                if item.kind == 'struct':
                    eg = drop_trailing_commas(eg)
                if eg != es:
                    raise LostAnchor('%s :: %s: merge self-check failed' % (rel, ' :: '.join(path)))
            if canary and item.kind == 'fn' and item.body_open is not None:
                # insert after the body's opening brace
                k = 0
                bo = toks[item.body_open]
                gen2 = []
                done = False
                for t in gen:
                    gen2.append(t)
                    if not done and t is bo:
                        c = T('proof { assert(false); }')
                        for x in c:
                            x.ghost = True
                        gen2.extend(c)
                        done = True
                if not done:
                    # merged head: find first '{' that is the body: redo via parse
                    tmp = clone(gen)
                    it2 = parse_item(tmp, 0, len(tmp), True)
                    c = T('proof { assert(false); }')
                    gen2 = gen[:it2.body_open + 1] + c + gen[it2.body_open + 1:]
                gen = gen2
            restructured = False
            rearranged = False
            deleted_only = False
            whole_stmt = False
            crossing = False
            if status != 'merged' or item.kind != 'fn':
                perturbed = False
                dropped = False
            if status == 'merged' and item.kind == 'fn':
                restructured = [x for x in et if x in SKELETON] != [x for x in es if x in SKELETON]
                crossing = crossing_detected(et, es)
                rearranged = content_bag(et) == content_bag(es) and not local_substituted(et, es) and not crossing
                # executable text was only taken away (nothing added, nothing moved): every annotation still stands where it
                # stood relative to the statements that are left
                deleted_only = all(op[0] in ('equal', 'delete') for op in difflib.SequenceMatcher(a=et, b=es, autojunk=False).get_opcodes())
                # whole statements put in or taken out, or moved across an early exit - and nothing else touched: every other statement
                # still carries its annotations (two independent statements that merely changed places are not included: proofs do
                # lean on the order in which, say, two nibbles are set)
                try:
                    whole_stmt = whole_statement_edit(et, es) and (sorted(et) != sorted(es) or crossing)
                except Exception:
                    whole_stmt = False
                for k3, t3 in enumerate(gen):
                    if not t3.ghost and re.match(r'^[A-Z][A-Z0-9_]{2,}$', t3.text) and (k3 == 0 or gen[k3 - 1].text != '::'):
                        unit.caps_idents.add((t3.text, rel))
            out_chunks.append(render(toks[pos:item.start]))
            out_chunks.append(render_safe(gen))
            start_line, end_line = len(out_chunks) - 1, gen[0].trivia.count('\n')
            for k2, v in hits.items():
                unit.hits[k2] = unit.hits.get(k2, 0) + v
            unit.items.append({'file': rel, 'path': ' :: '.join(path), 'kind': item.kind, 'status': status, 'restructured': restructured, 'perturbed': perturbed, 'dropped': dropped, 'rearranged': rearranged, 'deleted_only': deleted_only, 'whole_stmt': whole_stmt,
                               'hits': hits, 'lines': (start_line, end_line), 'src_line': stoks_all[sitem.hstart].line,
                               'has_body': item.kind == 'fn' and item.body_open is not None})
            pos = item.end
            i = item.end
            continue
        if 'HOISTED' in kinds:
            # //@HOISTED helper : the body of the following fn is the hoisted text
            name = [d[1] for d in ds if d[0] == 'HOISTED'][0].split()[0]
            item = parse_item(toks, i, n, True)
            pending_fill.append((name, item, len(out_chunks)))
            out_chunks.append(render(toks[pos:item.start]))
            out_chunks.append(None)  # placeholder
            pending_fill[-1] = (name, item, len(out_chunks) - 1)
            pos = item.end
            i = item.end
            continue
        i += 1
    out_chunks.append(render(toks[pos:]) + tail)
    for name, item, slot in pending_fill:
        if name not in hoist_bodies:
            raise LostAnchor('hoisted helper %s has no //@HOIST' % name)
        cut = hoist_bodies[name]
        ttoks = toks[item.start:item.end]
        # body tokens of template helper (between braces) must equal the cut text, else replace
        # the helper is external_body: its contract is assumed here and discharged by the Kani harness that
        # receives the same cut text; the text itself is recorded (rustc would have to type-check it against
        # types this unit leaves opaque, so it is carried as a comment)
        head = toks[item.start:item.body_open + 1]
        txt = ' '.join(t.text for t in cut).replace('*/', '* /')
        body = toks[item.body_open + 1:item.end - 1]
        if any(t.text == 'vx_keep_body' for t in body):
            # a helper returning `impl Trait` needs a body of some implementing type for rustc (never executed, never verified)
            out_chunks[slot] = render(head) + ' /* hoisted text: ' + txt + ' */' + render(body) + ' }'
        else:
            out_chunks[slot] = render(head) + ' /* hoisted text: ' + txt + ' */ unimplemented!() }'
    # line spans of the generated items
    cum = [0]
    for c in out_chunks:
        cum.append(cum[-1] + c.count('\n'))
    for it in unit.items:
        ci, lead = it['lines']
        it['lines'] = (cum[ci] + lead + 1, cum[ci + 1] + 1)
    unit.text = ''.join(out_chunks)
    # a changed function may use a constant the template does not know (a new `const` next to it): take its definition
    # from the same source file, as it stands (no contract is attached to a constant)
    extra = []
    for name, rel in sorted(unit.caps_idents):
        if re.search(r'\b(const|static)\s+%s\b' % name, unit.text):
            continue
        m = None
        for cand in [rel, 'src/raw/mod.rs', 'src/raw/node.rs', 'src/raw/build.rs', 'src/lib.rs']:
            try:
                raw = open(os.path.join(unit.repo, cand)).read()
            except OSError:
                continue
            m = re.search(r'^[ \t]*(?:pub(?:\([^)]*\))?[ \t]+)?const[ \t]+%s[ \t]*:[ \t]*([^=;]+?)[ \t]*=[ \t]*([^;]+);' % name, raw, re.M)
            if m:
                rel = cand
                break
        if m:
            extra.append('//@SRC-AUTO %s :: const %s (new constant used by a changed function)\npub const %s: %s = %s;\n' % (rel, name, name, m.group(1), m.group(2)))
            unit.hits['auto-const ' + name] = 1
    if extra:
        k = unit.text.rfind('} // verus!')
        if k >= 0:
            unit.text = unit.text[:k] + ''.join(extra) + unit.text[k:]
    unit.assumes = [m.group(1).strip() for m in re.finditer(r'//@ASSUME[ \t]+(.*)', unit.text)]
    return unit


def rebuild_const(toks, item, stoks):
    """a constant whose definition differs from the template: the source's definition, made pub"""
    out = list(toks[item.start:item.hstart])
    for t in out:
        t.ghost = True
    pub = T('pub')[0]
    pub.ghost = True
    pub.trivia = toks[item.hstart].trivia if not out else ' '
    out.append(pub)
    for t in stoks:
        out.append(Tok(t.kind, t.text, t.trivia if t.trivia else ' ', t.line))
    return out


def rebuild_struct(toks, item, stoks):
    """a struct whose definition differs from the template: the template's attributes are kept, the definition is
    the source's with every field made pub (R4)"""
    out = list(toks[item.start:item.hstart])
    for t in out:
        t.ghost = True
    pub = T('pub')[0]
    pub.ghost = True
    pub.trivia = toks[item.hstart].trivia if not out else ' '
    out.append(pub)
    depth = 0
    field_start = False
    angle = 0
    for k, t in enumerate(stoks):
        nt = Tok(t.kind, t.text, t.trivia if t.trivia else ' ', t.line)
        if t.kind == 'punct' and t.text in '({[':
            depth += 1
            out.append(nt)
            field_start = depth == 1 and t.text in '({'
            continue
        if t.kind == 'punct' and t.text in ')}]':
            depth -= 1
            out.append(nt)
            field_start = False
            continue
        if depth == 1:
            if t.text == '<':
                angle += 1
            elif t.text == '>':
                angle -= 1
            elif t.text == '>>':
                angle -= 2
        if field_start and depth == 1 and t.text not in (',',) and t.text != '#':
            p2 = T('pub')[0]
            p2.ghost = True
            out.append(p2)
            field_start = False
        out.append(nt)
        if depth == 1 and angle == 0 and t.kind == 'punct' and t.text == ',':
            field_start = True
    return out


def render_safe(toks):
    out = []
    prev = None
    for t in toks:
        tr = t.trivia
        if prev is not None and not tr and prev.kind in ('ident', 'num', 'lifetime') and t.kind in ('ident', 'num', 'lifetime', 'str', 'char'):
            tr = ' '
        out.append(tr + t.text)
        prev = t
    return ''.join(out)


def drop_trailing_commas(ts):
    out = []
    for k, t in enumerate(ts):
        if t == ',' and k + 1 < len(ts) and ts[k + 1] in (')', '}', ']'):
            continue
        out.append(t)
    return out


def first_diff(a, b):
    k = 0
    while k < len(a) and k < len(b) and a[k] == b[k]:
        k += 1
    return 'template ...%s | source ...%s' % (' '.join(a[max(0, k - 4):k + 6]), ' '.join(b[max(0, k - 4):k + 6]))


def strip_fn_head(toks, hits):
    """R3/R4 for a fn item: attributes of the DROP list anywhere, visibility at the head only."""
    out = []
    i = 0
    n = len(toks)
    seen_fn = False
    while i < n:
        t = toks[i]
        if t.text == '#' and i + 1 < n and toks[i + 1].text == '[':
            e = match_close(toks, i + 1) + 1
            name = toks[i + 2].text
            # `#[cfg_attr(<cfg>, doc = ..)]` is a conditional doc attribute
            cond_doc = name == 'cfg_attr' and any(toks[k].text == 'doc' and toks[k + 1].text == '=' for k in range(i + 3, e - 2)
                                                   if toks[k - 1].text == ',')
            if name in DROP_ATTRS or cond_doc:
                hits['R3'] = hits.get('R3', 0) + 1
                i = e
                continue
        if not seen_fn and t.kind == 'ident' and t.text == 'pub':
            e = i + 1
            if toks[e].text == '(':
                e = match_close(toks, e) + 1
            hits['R4'] = hits.get('R4', 0) + 1
            i = e
            continue
        if t.text == 'fn':
            seen_fn = True
        out.append(t)
        i += 1
    return out


def scan_assumptions(text):
    """every trusted construct in the generated text must be announced by an //@ASSUME line within the 4
    preceding lines. Returns (ok, list of unannounced hits)."""
    bad = []
    lines = text.split('\n')
    pat = re.compile(r'external_body|assume_specification|\badmit\s*\(|\bassume\s*\(|verifier::external|'
                     r'external_type_specification|external_trait_specification|\baxiom\b|accept_recursive_types')
    for k, ln in enumerate(lines):
        code = ln.split('//')[0]
        if pat.search(code):
            ctx = '\n'.join(lines[max(0, k - 6):k + 1])
            if '//@ASSUME' not in ctx:
                bad.append((k + 1, ln.strip()))
    return bad


if __name__ == '__main__':
    import argparse
    ap = argparse.ArgumentParser()
    ap.add_argument('template')
    ap.add_argument('--repo', default='/repo')
    ap.add_argument('--out', default='-')
    ap.add_argument('--canary', action='store_true')
    ap.add_argument('--rebase', action='store_true', help='development: write the merged text back as the template')
    a = ap.parse_args()
    u = Unit(os.path.basename(a.template).split('.')[0], a.template, a.repo)
    try:
        generate(u, a.canary, expand=not a.rebase)
    except LostAnchor as e:
        print('LOST ANCHOR:', e, file=sys.stderr)
        sys.exit(2)
    if a.rebase:
        open(a.template, 'w').write(u.text)
    elif a.out == '-':
        sys.stdout.write(u.text)
    else:
        open(a.out, 'w').write(u.text)
    for it in u.items:
        print('%-9s %s :: %s %s' % (it['status'], it['file'], it['path'], it['hits']), file=sys.stderr)
    bad = scan_assumptions(u.text)
    for ln, tx in bad:
        print('UNANNOUNCED ASSUMPTION line %d: %s' % (ln, tx), file=sys.stderr)
