"""Run one Verus unit: extract, scan, verify, classify."""
import json
import os
import re
import subprocess
import time

from extract import Unit, generate, scan_assumptions, LostAnchor

VERIF = os.path.dirname(os.path.dirname(os.path.abspath(__file__)))

FAIL_PAT = re.compile(
    r'postcondition not satisfied|precondition not satisfied|invariant not satisfied|assertion failed|'
    r'possible arithmetic underflow/overflow|possible division by zero|index out of bounds|'
    r'decreases not satisfied|loop invariant|cannot show|possible bit shift underflow/overflow|'
    r'recommendation not met|might not be allowed|failed to satisfy|unreachable|'
    r'constructed value may fail to meet its declared type invariant|could not prove termination|'
    r'call to nonterminating|postcondition|precondition|cast|overflow|underflow|possible truncation|'
    r'not satisfied|unable to prove|post-condition|pre-condition', re.I)
RLIMIT_PAT = re.compile(r'resource limit|rlimit|timed? ?out|solver.*(cancel|unknown)', re.I)


def parse_errors(stderr):
    """split rustc-style diagnostics: returns list of dict(level,msg,line,text)"""
    blocks = []
    cur = None
    for ln in stderr.split('\n'):
        m = re.match(r'^(error|warning|note)(\[[A-Z0-9]+\])?: (.*)$', ln)
        if m:
            if cur:
                blocks.append(cur)
            cur = {'level': m.group(1), 'msg': m.group(3), 'line': None, 'text': ln + '\n'}
            continue
        if cur is not None:
            cur['text'] += ln + '\n'
            m2 = re.match(r'^\s*--> [^:]+:(\d+):(\d+)', ln)
            if m2 and cur['line'] is None:
                cur['line'] = int(m2.group(1))
    if cur:
        blocks.append(cur)
    return blocks


def classify_block(b):
    if b['level'] != 'error':
        return 'info'
    msg = b['msg']
    if msg.startswith('aborting due to') or msg.startswith('could not compile'):
        return 'info'
    if RLIMIT_PAT.search(msg):
        return 'rlimit'
    if FAIL_PAT.search(msg):
        return 'fail'
    return 'other'


def run_verus(path, rlimit, timeout, threads=None):
    cmd = ['verus', os.path.basename(path), '--triggers-mode', 'silent', '--output-json', '--time-expanded',
           '--rlimit', str(rlimit), '--multiple-errors', '5']
    if threads:
        cmd += ['--num-threads', str(threads)]
    t0 = time.time()
    try:
        p = subprocess.run(['timeout', '-k', '5', str(timeout)] + cmd, cwd=os.path.dirname(path),
                           capture_output=True, text=True)
        rc = p.returncode
        out, err = p.stdout, p.stderr
    except Exception as e:  # pragma: no cover
        rc, out, err = 99, '', str(e)
    dt = time.time() - t0
    return cmd, rc, out, err, dt


class UnitResult:
    def __init__(self, name):
        self.name = name
        self.status = 'ok'          # ok / violation / undecided / broken
        self.reason = ''
        self.functions = {}         # verus name -> dict(success, time_us, rlimit, mode)
        self.failed = []            # list of (fn name, [error texts])
        self.undecided = []
        self.cmd = ''
        self.wall = 0.0
        self.smt_ms = 0
        self.unit = None
        self.stderr = ''
        self.ledger_missing = []
        self.canary = None
        self.gen_path = None


def load_ledger(unit_name):
    p = os.path.join(VERIF, 'contracts', unit_name + '.ledger')
    if not os.path.exists(p):
        return None
    return [l.strip() for l in open(p) if l.strip() and not l.startswith('#')]


def strip_crate(fn, crate):
    return fn[len(crate) + 2:] if fn.startswith(crate + '::') else fn


def verify_unit(name, repo, workdir, rlimit=50, timeout=180, canary=False, threads=None):
    """Returns UnitResult."""
    r = UnitResult(name)
    tmpl = os.path.join(VERIF, 'contracts', name + '.rs.tmpl')
    u = Unit(name, tmpl, repo)
    r.unit = u
    try:
        generate(u, canary)
    except LostAnchor as e:
        r.status = 'undecided'
        r.reason = 'lost anchor: %s' % e
        return r
    except Exception as e:
        r.status = 'undecided'
        r.reason = 'extractor error: %r' % e
        return r
    bad = scan_assumptions(u.text)
    if bad:
        r.status = 'broken'
        r.reason = 'unannounced assumption(s): %r' % bad[:3]
        return r
    crate = name + ('_canary' if canary else '')
    path = os.path.join(workdir, crate + '.rs')
    open(path, 'w').write(u.text)
    r.gen_path = path
    tries = [(rlimit, timeout)]
    if not canary:
        tries.append((rlimit * 4, timeout * 2))
    for (rl, to) in tries:
        cmd, rc, out, err, dt = run_verus(path, rl, to, threads)
        r.cmd = ' '.join(cmd)
        r.wall += dt
        r.stderr = err
        if rc in (124, 137):
            r.status = 'undecided'
            r.reason = 'verus wall-clock timeout (%ds)' % to
            continue
        try:
            j = json.loads(out)
        except Exception:
            r.status = 'undecided'
            r.reason = 'verus produced no JSON (rc=%d): %s' % (rc, err[-400:])
            return r
        vr = j.get('verification-results', {})
        r.functions = {}
        smt = j.get('times-ms', {}).get('smt', {})
        r.smt_ms = smt.get('smt-run', 0)
        for m in smt.get('smt-run-module-times', []):
            for f in m.get('function-breakdown', []):
                r.functions[strip_crate(f['function'], crate)] = {
                    'success': f['success'], 'time_us': f.get('time-micros', 0), 'rlimit': f.get('rlimit', 0),
                    'mode': f.get('mode:', '')}
        blocks = parse_errors(err)
        classes = [(classify_block(b), b) for b in blocks]
        other = [b for c, b in classes if c == 'other']
        rl_b = [b for c, b in classes if c == 'rlimit']
        fail_b = [b for c, b in classes if c == 'fail']
        failing = [f for f, d in r.functions.items() if not d['success']]
        if vr.get('encountered-vir-error') or (other and not r.functions) or (vr.get('encountered-error') and not failing and not fail_b and not rl_b):
            r.status = 'undecided'
            r.reason = 'verus rejected the unit: %s' % (other[0]['text'][:600] if other else err[-600:])
            return r
        if other:
            r.status = 'undecided'
            r.reason = 'verus error not classified as a failed obligation: %s' % other[0]['text'][:600]
            return r
        if not failing and vr.get('success'):
            r.status = 'ok'
            r.reason = ''
            break
        if rl_b and not fail_b:
            r.status = 'undecided'
            r.reason = 'rlimit exceeded in %s' % ', '.join(failing)
            continue  # retry with more
        # definite failures
        r.status = 'violation'
        r.failed = []
        # attribute error blocks to SRC items by line
        for f in failing:
            r.failed.append((f, []))
        texts_ = [b['text'] for b in fail_b + rl_b]
        if r.failed:
            r.failed[0] = (r.failed[0][0], texts_)
        else:
            r.failed = [('(unnamed)', texts_)]
        r.fail_lines = [b['line'] for b in fail_b]
        break
    return r


def check_ledger(r):
    """every expected function must be present and successful"""
    exp = load_ledger(r.name)
    if exp is None:
        return ['(no ledger file)']
    missing = [f for f in exp if f not in r.functions]
    return missing
