#!/usr/bin/env python3
"""Development aid: insert //@SRC directives into a prototype file for every executable item whose path
exists in one of the given /repo source files.  Output goes to stdout; the result is then edited by hand
(SUB / HOIST directives, trailing commas of clause lists)."""
import sys, os, re
sys.path.insert(0, os.path.dirname(os.path.abspath(__file__)))
from rtok import *


def exec_fn(toks, it):
    for k in range(it.hstart, it.end):
        tx = toks[k].text
        if tx == 'fn':
            return True
        if tx in ('spec', 'proof', 'axiom'):
            return False
    return False


def walk(toks, lo, hi, prefix, srcs, inserts):
    for it in parse_items(toks, lo, hi, True):
        if it.kind in ('impl', 'trait', 'mod'):
            sel = it.name if it.kind == 'impl' else '%s %s' % (it.kind, it.name)
            if it.body_open is not None:
                walk(toks, it.body_open + 1, it.end - 1, prefix + [sel], srcs, inserts)
            continue
        if it.kind == 'fn' and not exec_fn(toks, it):
            continue
        if it.kind not in ('fn', 'struct', 'enum'):
            continue
        if any(t.text in ('external_body', 'external_type_specification') for t in toks[it.start:it.hstart]):
            continue
        path = prefix + ['%s %s' % (it.kind, it.name)]
        if '//@SRC' in toks[it.start].trivia or '//@HOISTED' in toks[it.start].trivia:
            continue
        found = []
        for rel, st in srcs:
            c = find_items(st, path)
            for n, _ in enumerate(c):
                found.append((rel, n, len(c)))
        if len(found) == 1:
            rel, n, cnt = found[0]
            inserts.append((it.start, '//@SRC %s :: %s' % (rel, ' :: '.join(path))))
        elif len(found) > 1:
            inserts.append((it.start, '//@SRC? ambiguous %s :: %s %r' % (found[0][0], ' :: '.join(path), found)))


def main():
    tmpl = sys.argv[1]
    rels = sys.argv[2:]
    srcs = [(r, tokenize(open('/repo/' + r).read())[0]) for r in rels]
    text = open(tmpl).read()
    toks, tail = tokenize(text)
    # descend into verus! { }
    inserts = []
    i = 0
    while i < len(toks):
        if toks[i].text == 'verus' and toks[i + 1].text == '!' and toks[i + 2].text == '{':
            e = match_close(toks, i + 2)
            walk(toks, i + 3, e, [], srcs, inserts)
            i = e
        i += 1
    ins = dict(inserts)
    out = []
    for k, t in enumerate(toks):
        if k in ins:
            # put directive on its own line directly before the item, keeping indentation
            tr = t.trivia
            nl = tr.rfind('\n')
            indent = tr[nl + 1:] if nl >= 0 else ''
            out.append(tr[:nl + 1] if nl >= 0 else tr + '\n')
            out.append(indent + ins[k] + '\n' + indent + t.text)
        else:
            out.append(t.trivia + t.text)
    sys.stdout.write(''.join(out) + tail)


main()
