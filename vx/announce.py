#!/usr/bin/env python3
"""Development aid: put an //@ASSUME line in front of every unannounced trusted construct of a template.
usage: announce.py template 'default text with {name}' [name=text ...]"""
import re, sys
sys.path.insert(0, '/verif/vx')
from extract import scan_assumptions
p = sys.argv[1]
default = sys.argv[2]
special = dict(a.split('=', 1) for a in sys.argv[3:])
s = open(p).read()
lines = s.split('\n')
bad = scan_assumptions(s)
out = []
badl = {ln for ln, _ in bad}
for k, ln in enumerate(lines, 1):
    if k in badl:
        # find the name of the item this attribute belongs to
        ctx = ' '.join(lines[k - 1:k + 3])
        m = re.search(r'\b(fn|struct|trait|proof fn)\s+(\w+)', ctx)
        name = m.group(2) if m else '?'
        indent = re.match(r'\s*', ln).group(0)
        txt = special.get(name, default.replace('{name}', name))
        # do not announce twice for stacked attributes
        if not (out and '//@ASSUME' in out[-1]):
            out.append(indent + '//@ASSUME ' + txt)
    out.append(ln)
open(p, 'w').write('\n'.join(out))
print('announced', len(bad))
