#!/usr/bin/env python3
"""run every registered check on the unchanged tree (development aid): runall.py [quick|thorough]"""
import json, subprocess, sys, os, time
VERIF = os.path.dirname(os.path.dirname(os.path.abspath(__file__)))
tier = sys.argv[1] if len(sys.argv) > 1 else 'quick'
m = json.load(open(os.path.join(VERIF, 'MANIFEST.json')))
bad = 0
for c in m['checks']:
    cmd = c['quick_cmd'] if tier == 'quick' else c.get('thorough_cmd', c['quick_cmd'])
    t0 = time.time()
    p = subprocess.run(cmd, shell=True, cwd=VERIF, capture_output=True, text=True)
    line = (p.stdout.strip().split('\n') or [''])[-1]
    print('%s rc=%d %.0fs %s' % (c['property_id'], p.returncode, time.time() - t0, line[:160]))
    if p.returncode != 0:
        bad += 1
        print(p.stdout[-1500:])
try:
    import jsonschema
    sch = json.load(open('/root/.vp/EVIDENCE.schema.json'))
    for c in m['checks']:
        jsonschema.validate(json.load(open(os.path.join(VERIF, c['evidence_file']))), sch)
    jsonschema.validate(m, json.load(open('/root/.vp/MANIFEST.schema.json')))
    print('schemas ok')
except ImportError:
    print('(jsonschema not available in this python)')
sys.exit(1 if bad else 0)
