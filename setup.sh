#!/bin/sh
# offline setup: nothing is built ahead of time (every check re-extracts and re-verifies from /repo);
# only confirm that the tools answer.
set -e
verus --version >/dev/null
python3 -c 'import json,difflib' 
CARGO_NET_OFFLINE=true cargo kani --version >/dev/null 2>&1 || echo "warning: cargo kani not answering"
echo setup ok
