// Demonstration of the five defects repaired by the "fix:" commits in /repo.
// Copy to /repo/tests/defects_demo.rs and run `cargo test --offline --test defects_demo`:
// every test fails on the pinned snapshot 88c1338 and passes on the repaired tree.
use fst::raw::{Builder, Fst};
use fst::Streamer;
use fst::SetBuilder;
use std::io;

struct Trickle(Vec<u8>, usize);
impl io::Write for Trickle {
    fn write(&mut self, buf: &[u8]) -> io::Result<usize> {
        let n = buf.len().min(self.1);
        self.0.extend_from_slice(&buf[..n]);
        Ok(n)
    }
    fn flush(&mut self) -> io::Result<()> { Ok(()) }
}

// C07/C08: a sink that accepts 3 bytes per call must receive the same bytes as a Vec.
#[test]
fn c07_short_writes_same_bytes() {
    let keys = ["bar", "baz", "foo", "foobar"];
    let mut a = Builder::memory();
    let mut b = Builder::new(Trickle(vec![], 3)).unwrap();
    for (i, k) in keys.iter().enumerate() {
        a.insert(k, i as u64 * 7).unwrap();
        b.insert(k, i as u64 * 7).unwrap();
    }
    let va = a.into_inner().unwrap();
    let vb = b.into_inner().unwrap().0;
    assert_eq!(va, vb);
    Fst::new(vb).unwrap().verify().unwrap();
}

// C10: version-2 files of 32..35 bytes are well formed (no checksum in versions 1-2).
#[test]
fn c10_short_version2_files_open() {
    // empty FST, version 2: header(version, type) + len + root address 0
    let mut f = vec![];
    f.extend_from_slice(&2u64.to_le_bytes());
    f.extend_from_slice(&0u64.to_le_bytes());
    f.extend_from_slice(&0u64.to_le_bytes());
    f.extend_from_slice(&0u64.to_le_bytes());
    assert_eq!(f.len(), 32);
    let fst = Fst::new(f).unwrap();
    assert_eq!(fst.len(), 0);
    // single key "a", version 2: one-trans-next node (input 'a' is a common input: 1 byte) + final root...
    let v3 = { let mut b = Builder::memory(); b.add("a").unwrap(); b.into_inner().unwrap() };
    let mut v2 = v3[..v3.len() - 4].to_vec(); // drop checksum
    v2[0] = 2;
    assert!(v2.len() < 36);
    let fst = Fst::new(v2).unwrap();
    assert!(fst.contains_key("a"));
    assert_eq!(fst.len(), 1);
}

// C16: the empty key's value is the root's final output.
#[test]
fn c16_get_key_root_output() {
    let mut b = Builder::memory();
    b.insert("", 5).unwrap();
    b.insert("a", 7).unwrap();
    let fst = b.into_fst();
    assert_eq!(fst.get_key(5), Some(vec![]));
    assert_eq!(fst.get_key(7), Some(b"a".to_vec()));
    assert_eq!(fst.get_key(0), None);
}

// C01: add() after insert() on a raw builder stores the value 0.
#[test]
fn c01_add_after_insert_is_zero() {
    let mut b = Builder::memory();
    b.insert("a", 5).unwrap();
    b.add("ab").unwrap();
    b.insert("ac", 9).unwrap();
    let fst = b.into_fst();
    let mut got = vec![];
    let mut s = fst.stream();
    while let Some((k, o)) = s.next() { got.push((k.to_vec(), o.value())); }
    assert_eq!(got, vec![(b"a".to_vec(), 5), (b"ab".to_vec(), 0), (b"ac".to_vec(), 9)]);
}

// C06 (fixed by 3c9cd25): SetBuilder::extend_stream rejected a repeated key
struct Rep { xs: Vec<Vec<u8>>, i: usize }
impl<'a> Streamer<'a> for Rep {
    type Item = &'a [u8];
    fn next(&'a mut self) -> Option<&'a [u8]> {
        if self.i < self.xs.len() { self.i += 1; Some(&self.xs[self.i - 1]) } else { None }
    }
}

#[test]
fn c06_set_extend_stream_repeat_is_noop() {
    // insert: a repeat is a no-op
    let mut b = SetBuilder::memory();
    b.insert("a").unwrap();
    b.insert("a").unwrap();
    b.insert("b").unwrap();
    let s1 = b.into_set();
    // extend_iter: same
    let mut b = SetBuilder::memory();
    b.extend_iter(vec!["a", "a", "b"]).unwrap();
    let s2 = b.into_set();
    assert_eq!(s1.as_fst().as_bytes(), s2.as_fst().as_bytes());
    // extend_stream: same keys
    let mut b = SetBuilder::memory();
    let r = b.extend_stream(Rep { xs: vec![b"a".to_vec(), b"a".to_vec(), b"b".to_vec()], i: 0 });
    assert!(r.is_ok(), "extend_stream rejected a repeated key that insert accepts: {:?}", r);
    let s3 = b.into_set();
    assert_eq!(s1.as_fst().as_bytes(), s3.as_fst().as_bytes());
}
